# Shared contracts for the DES obligations of C02 / C03 / C18.
from pyvc import val
from pyvc.val import land
from spec import des as D
import crysp.des as des
from crysp.bits import Bits

DES_F = ['des_F%d' % r for r in range(16)]

def mkbits(v, n):
    b = Bits(0, n); b.ival = v; return b

def install_F_contract(c):
    """des.F(R,k,r) through its contract (obligation des.F/post): the FIPS 46-3 cipher function under round key r of k"""
    def h(I, args, kw):
        R, k, r = args
        if not isinstance(r, int) or R.size != 32 or k.size != 56: return NotImplemented
        return (mkbits(D.F[r](R.ival, k.ival), 32),)
    c.replace(des.F, h)

def install_DES_contract(c):
    """DES.enc / DES.dec through their contracts (obligation DES.enc-dec/post)"""
    def he(I, args, kw):
        self, M = args
        if len(M) != 8: return NotImplemented
        return (val_bytes(D.ENC(self.K.ival, key_of_bytes(M))),)
    def hd(I, args, kw):
        self, M = args
        if len(M) != 8: return NotImplemented
        return (val_bytes(D.DEC(self.K.ival, key_of_bytes(M))),)
    c.replace(des.DES.enc, he); c.replace(des.DES.dec, hd)

def key_of_bytes(bs):
    """the integer a Bits(bytes) holds: bit i of the int is the standard's bit i+1"""
    return val.from_bits(D.bytes_to_bits(list(bs)))

def val_bytes(x):
    from pyvc.sbytes import from_items
    return from_items(D.bits_to_bytes(val.bits_of(x, 64)))
