# Exceptions of the engine, importable without z3 (the native replay runs under the repository's interpreter).
class EngineError(Exception):
    """the engine cannot faithfully continue (unsupported construct, leak, obligation out of date): obligation is UNDECIDED"""

class LeakError(EngineError):
    pass
