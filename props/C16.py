# C16  Poly: element-wise ring arithmetic, sequence indexing, consistent re-chunking.
# Model from the property: a vector is its coefficient list over Z/2^k (k = 0: the integers).
# Coefficients are symbolic over their whole range; dimensions are enumerated (bounded in dimension: class B).
import itertools
from pyvc.oblig import obligation
from pyvc import val
from pyvc.val import land, lor, lnot, mask
from crysp.poly import Poly
from crysp.bits import Bits, pack

P = 'C16'
RINGS = [0, 1, 2, 3, 8, 32, 64]
def dims(tier): return list(range(0, 5)) if tier == 'quick' else list(range(0, 9)) + [16, 20]
def red(x, k): return x if k == 0 else x & mask(k)
def snap(p): return (list(p.ival), p.mask)
def same(c, label, p, s):
    c.ensure(label + '/operand-unchanged', land(val.eq(list(p.ival), s[0]), p.mask == s[1]))
def wf(c, label, r, k, dim):
    c.ensure(label + '/ring', r.size == k)
    c.ensure(label + '/dim', land(r.dim == dim, len(r.ival) == dim))
    if k: c.ensure(label + '/reduced', land(*[land(x >= 0, x <= mask(k)) for x in r.ival]))
def at(xs, i): return xs[i] if i < len(xs) else 0

OPS = {'+': lambda x, y: x + y, '-': lambda x, y: x - y, '^': lambda x, y: x ^ y, '&': lambda x, y: x & y, '|': lambda x, y: x | y}

@obligation(P, 'crysp.poly.SubPoly.binop/post', cls='B', bound='dimensions 0..4 x 0..4 (quick; 0..8,16,20 thorough), rings k in {0,1,2,3,8,32,64}; coefficients complete',
            funcs=['crysp.poly.SubPoly.__add__', 'crysp.poly.SubPoly.__sub__', 'crysp.poly.SubPoly.__xor__', 'crysp.poly.SubPoly.__and__', 'crysp.poly.SubPoly.__or__', 'crysp.poly.SubPoly.e', 'crysp.poly.SubPoly.__setitem__', 'crysp.poly.SubPoly.__init__'],
            cases=lambda tier: [{'op': o, 'k': k, 'm': m} for o in OPS for k in RINGS for m in dims(tier)])
def _(c):
    op, k, m = c.case('op'), c.case('k'), c.case('m')
    for n in (dims('quick') if m <= 4 else [0, 1, m - 1, m, m + 1]):
        a = c.poly('a%d_' % n, m, k); b = c.poly('b%d_' % n, n, k)
        sa, sb = snap(a), snap(b)
        r = c.binop(op, a, b)
        lab = '%s(%d,%d)' % (op, m, n)
        wf(c, lab, r, k, max(m, n))
        exp = [red(OPS[op](at(sa[0], i), at(sb[0], i)), k) for i in range(max(m, n))]
        c.ensure(lab + '/coefficients', val.eq(list(r.ival), exp))
        same(c, lab + '/a', a, sa); same(c, lab + '/b', b, sb)
        if op != '-':
            r2 = c.binop(op, b, a)
            c.ensure(lab + '/commutes', val.eq(list(r2.ival), list(r.ival)))
    c.ensure('nonvacuous', True)

@obligation(P, 'crysp.poly.SubPoly.binop/whole-stated-domain', cls='L', tiers=('thorough',), timeout=600,
            funcs=['crysp.poly.SubPoly.__add__', 'crysp.poly.SubPoly.__sub__', 'crysp.poly.SubPoly.__xor__', 'crysp.poly.SubPoly.__and__', 'crysp.poly.SubPoly.__or__', 'crysp.poly.SubPoly.e', 'crysp.poly.SubPoly.__setitem__', 'crysp.poly.SubPoly.__init__'],
            cases=lambda tier: [{'op': o, 'k': k, 'm': m} for o in OPS for k in range(0, 65) for m in range(0, 21, 3)],
            note='the whole range the property quantifies over: every ring k = 0..64 and every pair of dimensions 0..20 x 0..20, coefficients symbolic over their full range (k = 0: integers in [-2^70, 2^70])')
def _(c):
    op, k, m0 = c.case('op'), c.case('k'), c.case('m')
    for m in range(m0, min(m0 + 3, 21)):
        for n in range(0, 21):
            a = c.poly('a%d_%d_' % (m, n), m, k); b = c.poly('b%d_%d_' % (m, n), n, k)
            sa, sb = snap(a), snap(b)
            r = c.binop(op, a, b)
            lab = '%s(%d,%d)' % (op, m, n)
            wf(c, lab, r, k, max(m, n))
            exp = [red(OPS[op](at(sa[0], i), at(sb[0], i)), k) for i in range(max(m, n))]
            c.ensure(lab + '/coefficients', val.eq(list(r.ival), exp))
            same(c, lab + '/a', a, sa); same(c, lab + '/b', b, sb)
            if op != '-':
                r2 = c.binop(op, b, a)
                c.ensure(lab + '/commutes', val.eq(list(r2.ival), list(r.ival)))

@obligation(P, 'crysp.poly.SubPoly.unary/post', cls='B', bound='dimensions 0..4 (quick), rings as above', funcs=['crysp.poly.SubPoly.__neg__', 'crysp.poly.SubPoly.__lshift__', 'crysp.poly.SubPoly.__rshift__', 'crysp.poly.SubPoly.is_zero', 'crysp.poly.SubPoly.__eq__', 'crysp.poly.SubPoly.__ne__'],
            cases=lambda tier: [{'k': k, 'm': m} for k in RINGS for m in dims(tier)])
def _(c):
    k, m = c.case('k'), c.case('m')
    a = c.poly('a', m, k); sa = snap(a)
    r = c.unop('-', a)
    wf(c, 'neg', r, k, m)
    c.ensure('neg/coefficients', val.eq(list(r.ival), [red(-x, k) for x in sa[0]]))
    z = c.binop('+', a, r)
    c.ensure('neg/additive-inverse', val.eq(list(z.ival), [0] * m))
    for sh in (0, 1, 3, k, k + 1):
        if k == 0 and sh > 3: continue
        r = c.binop('<<', a, sh)
        wf(c, 'shl%d' % sh, r, k, m); c.ensure('shl%d/coefficients' % sh, val.eq(list(r.ival), [red(x << sh, k) for x in sa[0]]))
        if k:
            r = c.binop('>>', a, sh)
            wf(c, 'shr%d' % sh, r, k, m); c.ensure('shr%d/coefficients' % sh, val.eq(list(r.ival), [x >> sh for x in sa[0]]))
    same(c, 'unary/a', a, sa)

@obligation(P, 'crysp.poly.SubPoly.unary/whole-stated-domain', cls='L', timeout=600, funcs=['crysp.poly.SubPoly.__neg__', 'crysp.poly.SubPoly.__lshift__', 'crysp.poly.SubPoly.__rshift__'],
            cases=lambda tier: [{'k': k} for k in range(0, 65)],
            note='the whole range the property quantifies over: every ring k = 0..64 and every dimension 0..20, coefficients symbolic over their full range: negation, additive inverse, shifts by 0, 1, 3, k-1, k, k+1')
def _(c):
    k = c.case('k')
    for m in range(0, 21):
        a = c.poly('a%d_' % m, m, k); sa = snap(a)
        r = c.unop('-', a)
        wf(c, 'neg(%d)' % m, r, k, m)
        c.ensure('neg(%d)/coefficients' % m, val.eq(list(r.ival), [red(-x, k) for x in sa[0]]))
        z = c.binop('+', a, r)
        c.ensure('neg(%d)/additive-inverse' % m, val.eq(list(z.ival), [0] * m))
        for sh in sorted({0, 1, 3, max(k - 1, 0), k, k + 1}):
            if k == 0 and sh > 3: continue
            r = c.binop('<<', a, sh)
            wf(c, 'shl%d(%d)' % (sh, m), r, k, m); c.ensure('shl%d(%d)/coefficients' % (sh, m), val.eq(list(r.ival), [red(x << sh, k) for x in sa[0]]))
            if k:
                r = c.binop('>>', a, sh)
                wf(c, 'shr%d(%d)' % (sh, m), r, k, m); c.ensure('shr%d(%d)/coefficients' % (sh, m), val.eq(list(r.ival), [x >> sh for x in sa[0]]))
        same(c, 'unary(%d)/a' % m, a, sa)

def _in_range_slices(m):
    out = []
    rng = [None] + list(range(0, m + 1))
    for st in rng:
        for sp in rng:
            for sk in (None, 1, 2, 3):
                out.append(slice(st, sp, sk))
    return out

@obligation(P, 'crysp.poly.Poly.__getitem__/post', cls='B', bound='dimensions 0..5, every slice with non-negative components within the dimension and steps {None,1,2,3}, index lists of length <=3 with repeats',
            funcs=['crysp.poly.Poly.__getitem__', 'crysp.poly.SubPoly.indices', 'crysp.poly.SubPoly.span', 'crysp.poly.SubPoly.e'], cases=lambda tier: [{'k': k, 'm': m} for k in (0, 8, 32) for m in range(0, 6)])
def _(c):
    k, m = c.case('k'), c.case('m')
    a = c.poly('a', m, k); sa = snap(a)
    for i in range(m):
        r = c.getitem(a, i)
        c.ensure('int[%d]' % i, land(val.eq(list(r.ival), [sa[0][i]]), r.size == k))
    for sl in _in_range_slices(m):
        idx = list(range(m))[sl]
        r = c.getitem(a, sl)
        lab = 'slice[%s:%s:%s]' % (sl.start, sl.stop, sl.step)
        c.ensure(lab, land(val.eq(list(r.ival), [sa[0][j] for j in idx]) if idx else (r.dim == 0 if True else True), r.size == k))
    for L in itertools.chain.from_iterable(itertools.product(range(m), repeat=n) for n in range(1, 4)):
        r = c.getitem(a, list(L))
        c.ensure('list%s' % (list(L),), land(val.eq(list(r.ival), [sa[0][j] for j in L]), r.size == k))
    same(c, 'getitem/a', a, sa)

@obligation(P, 'crysp.poly.Poly.__getitem__/slice-beyond-end', cls='B', bound='dimensions 1..4, stop up to dim+3', funcs=['crysp.poly.SubPoly.indices', 'crysp.poly.Poly.__getitem__'],
            cases={'m': [1, 2, 3, 4]}, note='a slice whose stop lies beyond the dimension selects only existing coefficients (sequence semantics)')
def _(c):
    m = c.case('m')
    a = c.poly('a', m, 8); sa = snap(a)
    for sp in range(m + 1, m + 4):
        r = c.getitem(a, slice(0, sp))
        c.ensure('slice[0:%d]' % sp, val.eq(list(r.ival), sa[0]))

@obligation(P, 'crysp.poly.SubPoly.__setitem__/post', cls='B', bound='dimensions 0..5; int, in-range slices (steps None,1,2) and index lists (<=3, no repeats); values: ints, lists, Poly, Bits',
            funcs=['crysp.poly.SubPoly.__setitem__'], cases=lambda tier: [{'k': k, 'm': m} for k in (0, 8, 32) for m in range(1, 6)])
def _(c):
    k, m = c.case('k'), c.case('m')
    n = 0
    for i in range(m):
        a = c.poly('a%d_' % n, m, k); s0 = list(a.ival); v = c.int('v%d' % n, 0, mask(k) if k else 1 << 40); n += 1
        c.setitem(a, i, v)
        c.ensure('int[%d]' % i, val.eq(list(a.ival), s0[:i] + [v] + s0[i + 1:]))
        c.ensure('int[%d]/dim' % i, len(a.ival) == m)
    sels = [sl for sl in _in_range_slices(m) if sl.step in (None, 1, 2)] + [list(L) for q in range(1, 4) for L in itertools.permutations(range(m), q)]
    for sel in sels:
        idx = list(range(m))[sel] if isinstance(sel, slice) else sel
        if not idx: continue
        for kind in ('list', 'poly'):
            a = c.poly('a%d_' % n, m, k); s0 = list(a.ival)
            vs = c.ints('v%d_' % n, len(idx), 0, mask(k) if k else 1 << 40); n += 1
            rhs = list(vs) if kind == 'list' else c.poly('unused%d_' % n, 0, k)
            if kind == 'poly':
                rhs = Poly([0] * len(idx), k); rhs.ival = list(vs)
            c.setitem(a, sel, rhs)
            exp = list(s0)
            for j, p in enumerate(idx): exp[p] = vs[j]
            lab = 'set[%s]=%s' % (sel if not isinstance(sel, slice) else '%s:%s:%s' % (sel.start, sel.stop, sel.step), kind)
            c.ensure(lab, land(val.eq(list(a.ival), exp), len(a.ival) == m))

@obligation(P, 'crysp.poly.SubPoly.concat-split-pack/post', cls='B', bound='dimensions 0..4; rings 8,16,32,64; split sizes dividing the ring',
            funcs=['crysp.poly.SubPoly.__floordiv__', 'crysp.poly.SubPoly.split', 'crysp.bits.pack', 'crysp.poly.SubPoly.__iter__'], cases=lambda tier: [{'k': k, 'm': m} for k in (8, 16, 32, 64) for m in range(0, 5)])
def _(c):
    k, m = c.case('k'), c.case('m')
    for n in range(0, 4):
        a = c.poly('a%d_' % n, m, k); b = c.poly('b%d_' % n, n, k); sa, sb = snap(a), snap(b)
        r = c.binop('//', a, b)
        c.ensure('concat(%d,%d)' % (m, n), land(val.eq(list(r.ival), sa[0] + sb[0]), r.size == k))
        same(c, 'concat/a%d' % n, a, sa); same(c, 'concat/b%d' % n, b, sb)
    a = c.poly('a', m, k); sa = snap(a)
    for kk in (8, 16, 32):
        if k % kk or kk > k: continue
        r = c.call(Poly.split, a, kk)
        exp = [(x >> (kk * j)) & mask(kk) for x in sa[0] for j in range(k // kk)]
        c.ensure('split%d' % kk, land(val.eq(list(r.ival), exp), r.size == kk))
        if kk < k:
            rb = c.call(Poly.split, a, kk, True)
            expb = [(x >> (kk * j)) & mask(kk) for x in sa[0] for j in reversed(range(k // kk))]
            c.ensure('split%d/bigend' % kk, val.eq(list(rb.ival), expb))
    if m:
        out = c.call(pack, a)
        c.ensure('pack', val.eq(out, [b for x in sa[0] for b in val.le_bytes(x, k // 8)]))
    same(c, 'split/a', a, sa)

@obligation(P, 'crysp.poly.SubPoly.dim-e-eq/post', cls='B', bound='dimensions 0..4, ring 8', funcs=['crysp.poly.SubPoly.dim', 'crysp.poly.SubPoly.e', 'crysp.poly.SubPoly.__eq__', 'crysp.poly.SubPoly.__ne__', 'crysp.poly.SubPoly.is_zero'],
            cases={'m': list(range(0, 5))})
def _(c):
    m = c.case('m')
    a = c.poly('a', m, 8); sa = snap(a)
    for i in range(m + 2):
        e = c.call(Poly.e, a, i)
        c.ensure('e(%d)' % i, land(val.eq(e.ival, at(sa[0], i)), e.size == 8))
    for d in range(1, m + 3):
        b = Poly([0] * m, 8); b.ival = list(sa[0])
        if m == 0: b.ival = []
        c.setattr(b, 'dim', d)
        c.ensure('dim=%d' % d, val.eq(list(b.ival), [at(sa[0], i) for i in range(d)]))
    c.ensure('empty-dim', Poly([], 8).dim == 0)

@obligation(P, 'canary/poly-add', cls='L', canary=True, funcs=['crysp.poly.SubPoly.__add__'])
def _(c):
    a = c.poly('a', 2, 8); b = c.poly('b', 2, 8)
    r = c.binop('+', a, b)
    c.ensure('canary', val.eq(list(r.ival), [(x + y + 1) & 255 for x, y in zip(a.ival, b.ival)]))
