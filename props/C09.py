# C09  Padding: exact message||pad in full blocks, true bit counts, unpad inverts pad.
# The schemes' specifications are written on byte lists; block size, message length and bit residue are enumerated
# (class B: bounded in length), contents are symbolic.  MD/SHA/BLAKE last blocks are proved for every tail length in C01/C11.
from pyvc.oblig import obligation, BaseCtx
from pyvc import val
from pyvc.val import land, lor, lnot, mask
import crysp.padding as pad
from crysp.padding import PaddingError

P = 'C09'

def drain(g, probe):
    out = []
    while True:
        try: x = next(g)
        except StopIteration: break
        out.append((x, probe()))
    return out

def msgbits_bytes(M, L):
    """the first L bits of M as bytes, last partial byte zero-filled"""
    n, r = divmod(L, 8)
    out = list(M[:n])
    if r: out.append(M[n] & (0xff << (8 - r)) & 0xff)
    return out

def spec_pad(scheme, M, L, bl):
    """padded byte list and number of pad bits"""
    data = msgbits_bytes(M, L)
    n, r = divmod(L, 8)
    if scheme == 'nopadding': return list(M), 0
    if scheme == 'Nullpadding':
        total = max(bl, -(-len(data) // bl) * bl)
        return data + [0] * (total - len(data)), 8 * total - L
    if scheme == 'bitpadding':
        if r: data[-1] = data[-1] | (0x80 >> r)
        else: data = data + [0x80]
        total = -(-len(data) // bl) * bl
        return data + [0] * (total - len(data)), 8 * total - L
    q = bl - (len(M) % bl)
    if scheme == 'pkcs7': return list(M) + [q] * q, 8 * q
    if scheme == 'X923': return list(M) + [0] * (q - 1) + [q], 8 * q
    raise ValueError(scheme)

BITWISE = ('Nullpadding', 'bitpadding')
SCHEMES = ['nopadding', 'Nullpadding', 'bitpadding', 'pkcs7', 'X923']
def _cases(tier):
    out = []
    for s in SCHEMES:
        for bl in ((8, 16) if tier == 'quick' else (1, 8, 16, 64, 128)):
            for n in sorted({0, 1, bl - 1, bl, bl + 1, 2 * bl - 1, 2 * bl, 2 * bl + 1, 3 * bl} if tier == 'quick' else set(range(0, 3 * bl + 2))):
                if n < 0: continue
                for r in ((0, 1, 7) if s in BITWISE and n else (0,)):
                    if bl == 128 and n > 130 and tier != 'quick' and n % 7: continue
                    out.append({'scheme': s, 'bl': bl, 'n': n, 'r': r})
    return out

@obligation(P, 'iterblocks/post', cls='B', cases=_cases, funcs=['crysp.padding.blockiterator.iterblocks', 'crysp.padding.blockiterator.__init__', 'crysp.padding.nopadding.lastblock', 'crysp.padding.Nullpadding.lastblock',
            'crysp.padding.bitpadding.lastblock', 'crysp.padding.pkcs7.lastblock', 'crysp.padding.X923.lastblock', 'crysp.padding.nopadding.remove', 'crysp.padding.Nullpadding.remove', 'crysp.padding.bitpadding.remove', 'crysp.padding.pkcs7.remove', 'crysp.padding.X923.remove'],
            bound='block sizes 8,16 bytes (quick; 1,8,16,64,128 thorough), message lengths up to 3 blocks, bit residues {0,1,7}; contents symbolic')
def _(c):
    s, bl, n, r = c.case('scheme'), c.case('bl'), c.case('n'), c.case('r')
    M = c.bytes('M', n)
    L = 8 * n - ((8 - r) % 8)
    p = getattr(pad, s)(8 * bl)
    kw = {'bitlen': L} if r else {}
    g = c.call(p.iterblocks, M, **kw)
    blocks = drain(g, lambda: p.bitcnt)
    exp, padbits = spec_pad(s, list(M), L, bl)
    cat = [b for blk, _ in blocks for b in blk]
    c.ensure('concat', val.eq(cat, exp))
    if s != 'nopadding':
        c.ensure('block-lengths', all(len(blk) == bl for blk, _ in blocks))
        c.ensure('minimal-count', len(blocks) == len(exp) // bl)
        c.ensure('padcnt', p.padcnt == padbits)
    else:
        c.ensure('block-lengths', all(len(blk) == bl for blk, _ in blocks[:-1]) and len(blocks[-1][0]) <= bl)
    for i, (blk, cnt) in enumerate(blocks):
        has_msg = L > i * 8 * bl or (L == 0 and i == 0 and False)
        c.ensure('bitcnt[%d]' % i, cnt == (min(L, (i + 1) * 8 * bl) if has_msg else (0 if i > 0 or L == 0 else 0)))
    c.ensure('padflag', p.padflag is True)
    # a second message after the pad is refused
    o = c.outcome(lambda: list(p.iterblocks(b'x' * bl))) if c.mode != 'sym' else c.outcome(lambda: drain(c.call(p.iterblocks, b'x' * bl), lambda: 0))
    c.ensure('second-message-refused', o[0] == 'exc' and isinstance(o[1], Exception))
    # removing the padding gives back the message bits (bytes, last partial byte zero-filled)
    rem = c.call(p.remove, val_bytes(c, cat))
    c.ensure('remove', val.eq(rem, msgbits_bytes(list(M), L) if s != 'nopadding' else list(M)))

def val_bytes(c, items):
    if any(getattr(x, '_sym', False) for x in items):
        from pyvc.sbytes import from_items
        return from_items(items)
    return bytes(items)

@obligation(P, 'iterblocks/refusals', cls='B', bound='block sizes 8,16; listed lengths', cases={'scheme': SCHEMES + ['MDpadding', 'SHApadding'], 'bl': [8, 16]},
            funcs=['crysp.padding.blockiterator.iterblocks', 'crysp.padding.blockiterator.__init__'])
def _(c):
    s, bl = c.case('scheme'), c.case('bl')
    mk = (lambda: getattr(pad, s)(8 * bl)) if s in SCHEMES else (lambda: getattr(pad, s)(512, 32))
    blk = 64 if s not in SCHEMES else bl
    for n in (0, 1, blk, blk + 3):
        M = c.bytes('M%d' % n, n)
        for over in (1, 7, 8, 9):
            p = mk()
            o = c.outcome(lambda: drain(c.call(p.iterblocks, M, bitlen=8 * n + over), lambda: 0))
            c.ensure('bitlen-beyond-data n=%d +%d' % (n, over), o[0] == 'exc' and isinstance(o[1], Exception))
        if n % blk:
            p = mk()
            o = c.outcome(lambda: drain(c.call(p.iterblocks, M, padding=False), lambda: 0))
            c.ensure('unpadded-not-multiple n=%d' % n, o[0] == 'exc' and isinstance(o[1], Exception))
    c.raises('blocksize-not-multiple-of-8', Exception, getattr(pad, s), 12) if s in SCHEMES else None

@obligation(P, 'iterblocks/continuation', cls='B', bound='block size 8 and 64 bytes; two or three pieces of 0..2 blocks then a final piece of 0..block+1 bytes', funcs=['crysp.padding.blockiterator.iterblocks'],
            cases=lambda tier: [{'scheme': s, 'bl': bl, 'pieces': pc, 'last': last} for s in ('bitpadding', 'pkcs7', 'Nullpadding', 'SHApadding', 'MDpadding') for bl in ((8,) if s not in ('SHApadding', 'MDpadding') else (64,))
                                for pc in ('1', '2', '0,1', '1,0,2') for last in (0, 1, bl - 1, bl, bl + 1)])
def _(c):
    s, bl, last = c.case('scheme'), c.case('bl'), c.case('last')
    p = getattr(pad, s)(8 * bl) if s not in ('SHApadding', 'MDpadding') else getattr(pad, s)(8 * bl, 32)
    pieces = [int(x) for x in c.case('pieces').split(',')]
    allm = []; out = []
    for k, nb in enumerate(pieces):
        m = c.bytes('m%d' % k, nb * bl); allm += list(m)
        blocks = drain(c.call(p.iterblocks, m, padding=False), lambda: p.bitcnt)
        c.ensure('piece%d/blocks' % k, land(len(blocks) == nb, val.eq([b for blk, _ in blocks for b in blk], list(m))))
        c.ensure('piece%d/bitcnt' % k, p.bitcnt == 8 * len(allm))
        c.ensure('piece%d/per-block' % k, all(cnt == 8 * (len(allm) - nb * bl + (i + 1) * bl) for i, (_, cnt) in enumerate(blocks)))
        out += [b for blk, _ in blocks for b in blk]
    m = c.bytes('mlast', last); allm += list(m)
    blocks = drain(c.call(p.iterblocks, m), lambda: p.bitcnt)
    out += [b for blk, _ in blocks for b in blk]
    if s in ('SHApadding', 'MDpadding'):
        from spec import sha as S
        exp = S.md_pad(allm, 8 * len(allm), 512, 64, s == 'MDpadding')
    else:
        exp, _ = spec_pad(s, allm, 8 * len(allm), bl)
    if not (s == 'Nullpadding' and last == 0 and len(allm) > 0):
        c.ensure('concat', val.eq(out, exp))
    first_cnt = blocks[0][1] if blocks else None
    if last > 0:
        c.ensure('final/first-block-bitcnt', first_cnt == min(8 * len(allm), 8 * (len(allm) - last) + 8 * bl))
    else:
        c.ensure('final/pad-only-block-bitcnt', first_cnt == 0)

def _mal_cases(tier): return [{'scheme': s, 'bl': bl} for s in ('pkcs7', 'X923') for bl in (8, 16)]
@obligation(P, 'remove/malformed', cls='L', cases=_mal_cases, funcs=['crysp.padding.pkcs7.remove', 'crysp.padding.X923.remove'], max_paths=20000,
            note='for EVERY last block (all 2^64 / 2^128 values, one preceding block symbolic): removal succeeds exactly on well-formed padding and returns the unpadded prefix, otherwise PaddingError')
def _(c):
    s, bl = c.case('scheme'), c.case('bl')
    p = getattr(pad, s)(8 * bl)
    X = c.bytes('X', 2 * bl)
    q = X[-1]
    o = c.outcome(p.remove, X) if c.mode != 'sym' else c.outcome(p.remove, X)
    # validity predicate from the scheme's definition
    conds = []
    for k in range(1, bl + 1):
        tail = X[2 * bl - k:2 * bl - 1]
        ok = land(q == k, *[(t == (k if s == 'pkcs7' else 0)) for t in tail])
        conds.append(ok)
    valid = lor(*conds)
    if o[0] == 'ok':
        c.ensure('accepted-only-if-valid', valid)
        k = c.I.concretize(q, 'pad length') if c.mode == 'sym' else q
        c.ensure('prefix', val.eq(o[1], list(X[:2 * bl - k])))
    else:
        c.ensure('error-type', isinstance(o[1], PaddingError))
        c.ensure('rejected-only-if-invalid', lnot(valid))

@obligation(P, 'hash-paddings/remove', cls='B', native=True, bound='MD/SHA/BLAKE paddings, messages of 0..70 bytes', cases={'scheme': ['MDpadding', 'SHApadding', 'Blakepadding'], 'n': [0, 1, 55, 56, 64, 70]},
            funcs=['crysp.padding.MDpadding.remove', 'crysp.padding.SHApadding.remove', 'crysp.padding.Blakepadding.remove'])
def _(c):
    s, n = c.case('scheme'), c.case('n')
    p = pad.Blakepadding(256) if s == 'Blakepadding' else getattr(pad, s)(512, 32)
    M = bytes((7 * i + 1) & 0xff or 1 for i in range(n))
    cat = b''.join(p.iterblocks(M))
    rem = c.call(p.remove, cat)
    c.ensure('remove', rem == M)

# ---------------------------------------------------------------- MD / SHA / BLAKE length strengthening
HASHPADS = {'MD512': lambda: pad.MDpadding(512, 32), 'SHA512': lambda: pad.SHApadding(512, 32), 'SHA1024': lambda: pad.SHApadding(1024, 64),
            'BLAKE224': lambda: pad.Blakepadding(224), 'BLAKE256': lambda: pad.Blakepadding(256), 'BLAKE384': lambda: pad.Blakepadding(384), 'BLAKE512': lambda: pad.Blakepadding(512)}
def spec_hashpad(kind, M, L):
    """message bits || 1 || minimal 0* || (BLAKE: marker bit) || L on two words -- FIPS 180-4 5.1, RFC 1321 3.1-3.2, BLAKE 2.1.2"""
    from spec import sha as S, blake as B
    if kind.startswith('BLAKE'): return B.pad_tail(list(M), L, L, int(kind[5:]))
    bs = int(kind[3:] if kind.startswith('SHA') else kind[2:])
    return S.pad_tail(list(M), L, L, bs, bs // 8, kind.startswith('MD'))
def _hp_cases(tier):
    out = []
    for kind in HASHPADS:
        bl = 128 if kind in ('SHA1024', 'BLAKE384', 'BLAKE512') else 64; ws = bl // 8
        if tier == 'quick' and kind in ('BLAKE224', 'BLAKE384'): continue
        ns = {0, 1, bl - ws - 1, bl - ws, bl - ws + 1, bl - 1, bl, bl + 1, 2 * bl - ws, 2 * bl} if tier == 'quick' else set(range(0, bl + 2)) | set(range(2 * bl - ws - 2, 2 * bl + 2)) | {3 * bl - ws, 3 * bl}
        for n in sorted(ns):
            for r in ((0, 1, 7) if tier == 'quick' or n > bl + 1 or (bl == 128 and n % 4 not in (0, 1)) else range(8)) if n else (0,):
                out.append({'kind': kind, 'n': n, 'r': r})
    return out
@obligation(P, 'hash-paddings/iterblocks', cls='B', cases=_hp_cases, funcs=['crysp.padding.blockiterator.iterblocks', 'crysp.padding.MDpadding.lastblock', 'crysp.padding.SHApadding.lastblock', 'crysp.padding.Blakepadding.lastblock'],
            bound='MD(512), SHA(512/1024), BLAKE(224..512) paddings; message lengths 0..1 block+1 byte and around the two- and three-block spill boundaries (quick: the boundaries only), bit residues 0..7 (quick, and beyond one block: 0,1,7); contents symbolic')
def _(c):
    kind, n, r = c.case('kind'), c.case('n'), c.case('r')
    p = HASHPADS[kind](); bs = p.blocksize; bl = bs // 8
    M = c.bytes('M', n)
    L = 8 * n - ((8 - r) % 8)
    blocks = drain(c.call(p.iterblocks, M, **({'bitlen': L} if r else {})), lambda: p.bitcnt)
    exp = spec_hashpad(kind, M, L)
    c.ensure('concat', val.eq([b for blk, _ in blocks for b in blk], exp))
    c.ensure('block-lengths', all(len(blk) == bl for blk, _ in blocks))
    lb = bs // 8 + (1 if kind.startswith('BLAKE') else 0)          # bits of the length field (+ marker bit)
    c.ensure('minimal-count', len(blocks) == (L + 1 + lb + bs - 1) // bs)
    for i, (blk, cnt) in enumerate(blocks):
        c.ensure('bitcnt[%d]' % i, cnt == (min(L, (i + 1) * bs) if L > i * bs else 0))
    c.ensure('padflag', p.padflag is True)
    o = c.outcome(lambda: drain(c.call(p.iterblocks, b'x' * bl), lambda: 0))
    c.ensure('second-message-refused', o[0] == 'exc' and isinstance(o[1], Exception))

def _lb_cases9(tier):
    from props import C01, C11
    f = (lambda m: m._lb_quick(tier)) if tier == 'quick' else (lambda m: m._lb_cases(tier))
    return [dict(d, fam='sha') for d in f(C01)] + [dict(d, fam='blake') for d in f(C11)]
def _lastblock9(c):
    from props import C01, C11
    return (C01._lastblock if c.case('fam') == 'sha' else C11._lastblock)(c)
@obligation(P, 'hash-paddings/lastblock/boundary', cls='B', tiers=('quick',), cases=_lb_cases9, funcs=['crysp.padding.SHApadding.lastblock', 'crysp.padding.MDpadding.lastblock', 'crysp.padding.Blakepadding.lastblock', 'crysp.bits.pack'],
            bound='tail lengths at the padding-spill boundary and block ends x every bit residue (quick tier); the thorough tier proves every tail length (class L); bits-before counter symbolic')
def _(c): return _lastblock9(c)
@obligation(P, 'hash-paddings/lastblock/post', cls='L', tiers=('thorough',), cases=_lb_cases9, funcs=['crysp.padding.SHApadding.lastblock', 'crysp.padding.MDpadding.lastblock', 'crysp.padding.Blakepadding.lastblock', 'crysp.bits.pack'],
            note='every tail length 0..blocklen x every bit residue; bits-before counter symbolic (any multiple of the block size)')
def _(c): return _lastblock9(c)

@obligation(P, 'canary/pkcs7', cls='L', canary=True, funcs=['crysp.padding.pkcs7.lastblock'])
def _(c):
    p = pad.pkcs7(64); M = c.bytes('M', 3)
    blocks = drain(c.call(p.iterblocks, M), lambda: 0)
    c.ensure('canary', val.eq([b for blk, _ in blocks for b in blk], list(M) + [4] * 5))

@obligation(P, 'iterblocks/loop-step', cls='I', cases={'bl': [8, 16, 64, 128]}, funcs=['crysp.padding.blockiterator.iterblocks'],
            note='inductive step of the block loop from an ARBITRARY state (any number of bits already consumed, any total bit length, any earlier-calls offset): '
                 'either exactly the current block is handed out with self.bitcnt == offset + consumed bits and the next block is read, or the loop is left with nothing yielded and nothing changed')
def _(c):
    if c.mode == 'sym': from pyvc.sbytes import SBytesIO
    bl = c.case('bl')
    p = pad.pkcs7(8 * bl)
    k = c.int('k', 0, 1 << 60)                  # blocks handed out so far in this call
    bitcnt = k * (8 * bl)
    bitlen = c.int('bitlen', 0, 1 << 70)
    start = c.int('start', 0, 1 << 70)
    p.bitcnt = start + bitcnt
    Pi = c.bytes('Pi', bl); nxt = c.bytes('next', bl)
    P = SBytesIO(nxt) if c.mode == 'sym' else __import__('io').BytesIO(bytes(nxt))
    before = p.bitcnt
    ys, loc = c.loop_body(pad.blockiterator.iterblocks, 0, {'self': p, 'm': None, 'kargs': {}, 'padding': True, 'mlen': None, 'bitlen': bitlen, 'P': P, 'Pi': Pi, 'bitcnt': bitcnt, 'nc': 0, 'start': start})
    nc = bitcnt + 8 * bl
    more = nc < bitlen
    from pyvc.val import implies
    if len(ys) == 1:
        c.ensure('yield-only-if-more', more)
        c.ensure('block', val.eq(ys[0], list(Pi)))
        c.ensure('counters', land(val.eq(loc['bitcnt'], nc), val.eq(p.bitcnt, start + nc)))
        c.ensure('next-block-read', val.eq(loc['Pi'], list(nxt)))
    else:
        c.ensure('no-yield', len(ys) == 0)
        c.ensure('stop-only-if-last', lnot(more))
        c.ensure('unchanged', land(val.eq(loc['bitcnt'], bitcnt), val.eq(p.bitcnt, before), val.eq(loc['Pi'], list(Pi))))
