# C13  HMAC equals RFC 2104 for every hash of the library, key length and message.
# Parametric proof: the HMAC code is evaluated against an ABSTRACT hash (an uninterpreted function of the message bytes
# with a block size and a digest size), so the structure holds for every hash function; key and message LENGTHS are
# enumerated (class B), their contents are symbolic.  The library's own hashes are then plugged in natively (class E-style
# cross-check against the standard library's hmac) for the instantiation.
from pyvc.oblig import obligation
from pyvc import val
from pyvc.val import land, lor, lnot, mask
import crysp.hmac as chmac
from props.abstract import AbstractHash

P = 'C13'
def rfc2104(h, key, msg):
    B = h.blocksize // 8
    k = list(key)
    if len(k) > B: k = h.spec(k)
    k = k + [0] * (B - len(k))
    inner = h.spec([x ^ 0x36 for x in k] + list(msg))
    return h.spec([x ^ 0x5c for x in k] + inner)

def _cases(tier):
    out = []
    for B, n in ((8, 4), (8, 8), (64, 32), (128, 64), (64, 16)):
        if B == 8: klens = range(0, 3 * B + 1)
        else: klens = sorted({0, 1, n - 1, n, n + 1, B - 1, B, B + 1, 2 * B, 3 * B})
        for kl in klens:
            for ml in ((0, 1, 5) if B == 8 or tier != 'quick' else (3,)):
                out.append({'B': B, 'n': n, 'klen': kl, 'mlen': ml})
    return out

@obligation(P, 'crysp.hmac.HMAC/post', cls='B', opaque=['absH_*'], cases=_cases, funcs=['crysp.hmac.HMAC.__init__', 'crysp.hmac.HMAC.setkey', 'crysp.hmac.HMAC.__call__'],
            bound='abstract hash with (block,digest) bytes in {(8,4),(8,8),(64,32),(128,64),(64,16)}; key lengths 0..3 blocks (all for block 8, boundary set otherwise); message lengths {0,1,5}; contents symbolic; the hash is an arbitrary function')
def _(c):
    B, n, kl, ml = c.case('B'), c.case('n'), c.case('klen'), c.case('mlen')
    h = AbstractHash(B, n)
    key = c.bytes('K', kl); msg = c.bytes('M', ml)
    m = c.call(chmac.HMAC, h, key)
    out = c.call(chmac.HMAC.__call__, m, msg)
    c.ensure('mac', val.eq(out, rfc2104(h, key, msg)))
    c.ensure('key-block', len(m.K) == B)
    # setting a new key replaces the old one completely
    key2 = c.bytes('K2', (kl * 7 + 3) % (3 * B + 1))
    c.call(chmac.HMAC.setkey, m, key2)
    out2 = c.call(chmac.HMAC.__call__, m, msg)
    c.ensure('rekeyed', val.eq(out2, rfc2104(h, key2, msg)))
    out3 = c.call(chmac.HMAC.__call__, m, msg)
    c.ensure('repeatable', val.eq(out3, out2))

# ---------------------------------------------------------------- every message (class L)
# The message is an ABSTRACT byte string (pyvc.sbytes.SBytesT): arbitrary length, arbitrary content.  HMAC may only prefix it
# and hand it to the hash; the hash of "known prefix || message" is an uninterpreted function of the prefix bytes and the
# message token.  All (block, digest) size pairs of the library's hashes x every key length 0..3 blocks are enumerated, which
# is the whole range the property quantifies over.
LIB_SIZES = [(64, 16), (64, 20), (64, 28), (64, 32), (128, 28), (128, 32), (128, 48), (128, 64)]
def _t_cases(tier):
    out = []
    for B, n in LIB_SIZES + [(8, 4)]:
        step = 1 if tier != 'quick' or B == 8 else None
        klens = range(0, 3 * B + 1) if step else sorted({0, 1, n - 1, n, n + 1, B - 1, B, B + 1, 2 * B, 3 * B})
        # one obligation per group of key lengths (the groups partition 0..3B)
        ks = list(klens)
        for i in range(0, len(ks), 16): out.append({'B': B, 'n': n, 'klens': ','.join(str(k) for k in ks[i:i + 16])})
    return out
@obligation(P, 'crysp.hmac.HMAC/every-message', cls='L', opaque=['absH_*'], cases=_t_cases, funcs=['crysp.hmac.HMAC.__init__', 'crysp.hmac.HMAC.setkey', 'crysp.hmac.HMAC.__call__'],
            note='message of arbitrary length and content (abstract tail), key contents symbolic, hash an arbitrary function with the (block, digest) sizes of each library hash; '
                 'quick tier: key lengths at the block/digest boundaries, thorough tier: every key length 0..3 blocks')
def _(c):
    B, n = c.case('B'), c.case('n')
    h = AbstractHash(B, n)
    msg = c.tail('M')
    for kl in [int(x) for x in c.case('klens').split(',')]:
        key = c.bytes('K%d' % kl, kl)
        m = c.call(chmac.HMAC, h, key)
        out = c.call(chmac.HMAC.__call__, m, msg)
        k = list(key)
        if len(k) > B: k = h.spec(k)
        k = k + [0] * (B - len(k))
        inner = h.spec(val_bytes([x ^ 0x36 for x in k]) + msg)
        c.ensure('mac klen=%d' % kl, val.eq(out, h.spec([x ^ 0x5c for x in k] + inner)))
        c.ensure('length klen=%d' % kl, len(out) == n)
        # a second key on the same object replaces the first completely
        key2 = c.bytes('R%d' % kl, (kl * 7 + 3) % (3 * B + 1))
        c.call(chmac.HMAC.setkey, m, key2)
        out2 = c.call(chmac.HMAC.__call__, m, msg)
        k2 = list(key2)
        if len(k2) > B: k2 = h.spec(k2)
        k2 = k2 + [0] * (B - len(k2))
        c.ensure('rekeyed klen=%d' % kl, val.eq(out2, h.spec([x ^ 0x5c for x in k2] + h.spec(val_bytes([x ^ 0x36 for x in k2]) + msg))))

def val_bytes(items):
    if any(getattr(x, '_sym', False) for x in items):
        from pyvc.sbytes import from_items
        return from_items(items)
    return bytes(items)

@obligation(P, 'crysp.hmac.HMAC/library-hashes', cls='B', native=True, bound='library hashes with a stdlib counterpart (MD5, SHA-1, SHA-224/256/384/512, SHA-512/224, SHA-512/256); key lengths 0..3 blocks at boundaries; fixed messages',
            cases={'alg': ['md5', 'sha1', 'sha224', 'sha256', 'sha384', 'sha512', 'sha512_224', 'sha512_256', 'md4', 'blake256', 'blake512']}, funcs=['crysp.hmac.HMAC.__call__', 'crysp.hmac.HMAC.setkey'])
def _(c):
    import hmac as pyhmac, hashlib
    from crysp.sha import SHA1, SHA2
    from crysp.md import MD4, MD5
    from crysp.blake import Blake
    a = c.case('alg')
    mk = {'md5': MD5, 'sha1': SHA1, 'sha224': lambda: SHA2(224), 'sha256': lambda: SHA2(256), 'sha384': lambda: SHA2(384), 'sha512': lambda: SHA2(512),
          'sha512_224': lambda: SHA2(512, 224), 'sha512_256': lambda: SHA2(512, 256), 'md4': MD4, 'blake256': lambda: Blake(256), 'blake512': lambda: Blake(512)}[a]
    h = mk(); B = h.blocksize // 8
    for kl in sorted({0, 1, B - 1, B, B + 1, 2 * B + 3, 3 * B}):
        key = bytes((i * 7 + kl) & 0xff for i in range(kl))
        for msg in (b'', b'abc', bytes(range(200))):
            got = c.call(chmac.HMAC.__call__, chmac.HMAC(h, key), msg)
            if a in ('md4', 'blake256', 'blake512'):
                k = key if len(key) <= B else mk()(key)
                k = k + bytes(B - len(k))
                exp = mk()(bytes(x ^ 0x5c for x in k) + mk()(bytes(x ^ 0x36 for x in k) + msg))
            else:
                exp = pyhmac.new(key, msg, a).digest()
            c.ensure('%s klen=%d mlen=%d' % (a, kl, len(msg)), got == exp)

@obligation(P, 'canary/hmac-pads', cls='L', canary=True, opaque=['absH_*'], funcs=['crysp.hmac.HMAC.__call__'])
def _(c):
    h = AbstractHash(8, 4)
    key = c.bytes('K', 3); msg = c.bytes('M', 1)
    out = c.call(chmac.HMAC.__call__, c.call(chmac.HMAC, h, key), msg)
    k = list(key) + [0] * 5
    c.ensure('canary', val.eq(out, h.spec([x ^ 0x36 for x in k] + h.spec([x ^ 0x5c for x in k] + list(msg)))))
