#!/bin/sh
# run every registered quick check against /repo (writes evidence/<id>.json); prints one summary line per property
cd /verif
for p in $(python3 -c "import json;print(' '.join(c['property_id'] for c in json.load(open('MANIFEST.json'))['checks']))"); do
  s=$(date +%s); out=$(bin/check $p ${1:-quick} 2>&1); rc=$?; e=$(date +%s)
  echo "$p rc=$rc $((e-s))s $(echo "$out" | tail -1 | cut -c1-170)"
done
