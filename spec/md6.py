# MD6 (Rivest et al., 2008 report) on 64-bit words.  Q is derived (fractional part of sqrt(6)).
# Validated against the report's / repository tests' known answers in spec/validate.py.
from pyvc.val import mask, Opaque, be_bytes, from_be
import math

M64 = mask(64)
def _q():
    n = 6 << (2 * 64 * 15)
    r = math.isqrt(n)                      # floor(sqrt(6) * 2^(960))
    frac = r - (2 << (64 * 15))
    return [(frac >> (64 * (14 - i))) & M64 for i in range(15)]
Q = _q()
TAPS = (17, 18, 21, 31, 67)
RSH = [10, 5, 13, 10, 11, 12, 2, 7, 14, 15, 7, 13, 11, 7, 6, 12]
LSH = [11, 24, 9, 16, 15, 9, 27, 15, 6, 2, 29, 8, 15, 5, 31, 9]
S0, SMASK = 0x0123456789abcdef, 0x7311c2812425cfa0

def compress(N, rounds):
    """N: 89 words -> 16 words"""
    A = list(N); n = 89; t = 16 * rounds
    S = S0
    for i in range(n, n + t):
        j = (i - n) % 16
        x = S ^ A[i - n] ^ A[i - TAPS[0]]
        x = x ^ (A[i - TAPS[1]] & A[i - TAPS[2]]) ^ (A[i - TAPS[3]] & A[i - TAPS[4]])
        x = x ^ (x >> RSH[j])
        A.append((x ^ (x << LSH[j])) & M64)
        if j == 15: S = (((S << 1) | (S >> 63)) & M64) ^ (S & SMASK)
    return A[-16:]

F = Opaque('md6_f', None, [64] * 90, (64,) * 16)       # (89 words, rounds) -> 16 words
F.impl = lambda *a: tuple(compress(a[:89], a[89]))
NAMES = ['md6_f']

def default_rounds(d, keylen): return max(80, 40 + d // 4) if keylen else 40 + d // 4
def V(d, keylen, L, r, z, p): return d | (keylen << 12) | (p << 20) | (z << 36) | (L << 40) | (r << 48)
def U(level, index): return (level << 56) | index
def _key_words(key):
    k = list(key[:64]) + [0] * (64 - len(key[:64]))
    return [from_be(k[8 * i:8 * i + 8]) for i in range(8)]
def _words(bs): return [from_be(bs[8 * i:8 * i + 8]) for i in range(len(bs) // 8)]

def md6(d, M, bitlen=None, key=b'', L=64, rounds=None, opaque=False):
    keylen = len(key); K = _key_words(list(key))
    r = rounds if rounds is not None else default_rounds(d, keylen)
    def f(N): return list(F(*N, r)) if opaque else compress(N, r)
    M = list(M)
    bits = 8 * len(M) if bitlen is None else bitlen
    n, rr = divmod(bits, 8)
    M = M[:n] + ([M[n] & (0xff << (8 - rr)) & 0xff] if rr else [])
    level = 0
    while True:
        level += 1
        if level == L + 1:
            # sequential: 48-word blocks chained through 16 words
            bl = 384
            nb = max(1, -(-len(M) // bl))
            C = [0] * 16
            for i in range(nb):
                blk = M[i * bl:(i + 1) * bl]
                p = 8 * bl - (bits - 8 * i * bl if i == nb - 1 else 8 * bl)
                blk = blk + [0] * (bl - len(blk))
                z = 1 if i == nb - 1 else 0
                N = Q + K + [U(level, i), V(d, keylen, L, r, z, p)] + C + _words(blk)
                C = f(N)
            out = C; break
        bl = 512
        nb = max(1, -(-len(M) // bl))
        out = []
        for i in range(nb):
            blk = M[i * bl:(i + 1) * bl]
            p = 8 * bl - (bits - 8 * i * bl if i == nb - 1 else 8 * bl)
            blk = blk + [0] * (bl - len(blk))
            z = 1 if nb == 1 else 0
            N = Q + K + [U(level, i), V(d, keylen, L, r, z, p)] + _words(blk)
            out += f(N)
        if nb == 1: break
        M = [b for w in out for b in be_bytes(w, 8)]; bits = 8 * len(M)
    # the last d bits of the 1024-bit chaining value, left-justified in ceil(d/8) bytes
    big = 0
    for w in out[-16:]: big = (big << 64) | w
    h = big & mask(d)
    nbytes = -(-d // 8)
    return be_bytes(h << (8 * nbytes - d), nbytes)
