# C17  MD6 digests equal the specification for every size, mode, key and message.
from pyvc.oblig import obligation
from pyvc import val
from pyvc.val import land, lor, lnot, mask
from spec import md6 as M6
import crysp.md as md
from crysp.poly import Poly
from crysp.bits import Bits

P = 'C17'
def mkpoly(vals, size=64):
    p = Poly([0] * len(vals), size); p.ival = list(vals); return p

@obligation(P, 'MD6.f/post', cls='L', cases={'rounds': [1, 2, 3, 5]}, funcs=['crysp.md.MD6.f'], timeout=300,
            note='the compression loop on an ARBITRARY 89-word input for several round counts (every step uses the same body: taps 17,18,21,31,67, the 16 shift pairs and the S recurrence once per 16 steps)')
def _(c):
    r = c.case('rounds')
    h = md.MD6(256); h.rounds = r
    N = c.words('N', 89, 64)
    out = c.call(md.MD6.f, h, mkpoly(N))
    c.ensure('f', land(val.eq(list(out.ival), M6.compress(N, r)), out.size == 64, out.dim == 16))

@obligation(P, 'MD6.f/step', cls='I', funcs=['crysp.md.MD6.f'], timeout=200, cases={'j': list(range(16))},
            note='inductive step of the compression loop at an arbitrary position: for every shift index j, the body computes A[i] from the five taps, S and the j-th shift pair, and advances S exactly when j == 15')
def _(c):
    j = c.case('j')
    h = md.MD6(256)
    n = 89; i = n + j + 16
    A = mkpoly(c.words('A', i, 64) + [0] * 8)
    S = c.bits('S', 64); a0 = list(A.ival); s0 = S.ival
    ys, loc = c.loop_body(md.MD6.f, 0, {'self': h, 'N': None, 'n': n, 't': 16 * 104, 't0': 17, 't1': 18, 't2': 21, 't3': 31, 't4': 67, 'A': A, 'S': S, 'j': j, 'i': i})
    x = s0 ^ a0[i - n] ^ a0[i - 17]
    x = x ^ (a0[i - 18] & a0[i - 21]) ^ (a0[i - 31] & a0[i - 67])
    x = x ^ (x >> M6.RSH[j])
    c.ensure('A[i]', val.eq(A.ival[i], (x ^ (x << M6.LSH[j])) & mask(64)))
    c.ensure('rest-unchanged', val.eq(list(A.ival[:i]), a0[:i]))
    if j == 15:
        c.ensure('S-advanced', land(val.eq(loc['S'].ival, (((s0 << 1) | (s0 >> 63)) & mask(64)) ^ (s0 & M6.SMASK)), loc['j'] == 0))
    else:
        c.ensure('S-kept', land(val.eq(loc['S'].ival, s0), loc['j'] == j + 1))

@obligation(P, 'MD6.__init__/post', cls='E', domain={}, funcs=['crysp.md.MD6.__init__'], note='every digest size 1..512, key lengths 0,1,64,65: default round count, key words, constants Q (fractional part of sqrt 6)')
def _(c):
    c.ensure('Q', list(md.Q) == M6.Q and md.rin == M6.RSH and md.lin == M6.LSH)
    for d in range(1, 513):
        for key in (b'', b'k', bytes(range(64)), bytes(range(65))):
            h = md.MD6(d, key, 3)
            c.ensure('d=%d keylen=%d' % (d, len(key)), h.rounds == M6.default_rounds(d, len(key)) and list(h.K.ival) == M6._key_words(list(key)) and h.keylen == len(key) and h.size == d and h.L == 3)

def install_f(c):
    def hf(I, args, kw):
        self, N = args
        if N.dim != 89 or N.size != 64 or not isinstance(self.rounds, int): return NotImplemented
        return (mkpoly(list(M6.F(*list(N.ival), self.rounds))),)
    c.replace(md.MD6.f, hf)

def _cases(tier):
    if tier == 'quick':
        out = [{'d': 256, 'L': L, 'klen': k, 'n': n} for L in (64, 0, 1) for k in (0, 5) for n in (0, 1, 385, 512, 513)]
        out += [{'d': 13, 'L': L, 'klen': 0, 'n': 1} for L in (64, 0)] + [{'d': 256, 'L': 64, 'klen': 0, 'n': n} for n in (2048, 2049)]
        return out
    out = []
    for d in (1, 8, 13, 160, 224, 256, 384, 512):
        for L in (0, 1, 2, 3, 64):
            for klen in (0, 5, 64):
                full = d in (13, 256) and klen in (0, 64) and L in (0, 1, 64)
                for n in (0, 1, 383, 384, 385, 511, 512, 513, 1024, 1537, 2048, 2049, 8193) if full else (0, 1, 385, 513):
                    if n == 8193 and not (d == 256 and klen == 0): continue
                    out.append({'d': d, 'L': L, 'klen': klen, 'n': n})
    return out
@obligation(P, 'MD6.__call__/bounded', cls='B', opaque=M6.NAMES, cases=_cases, timeout=300, funcs=['crysp.md.MD6.__call__', 'crysp.md.MD6.PAR', 'crysp.md.MD6.SEQ'],
            bound='digest sizes {256,13} (8 sizes thorough), modes L in {64,0,1} (+2,3), key lengths {0,5} (+64), message lengths 0..2049 bytes (1-3 tree levels; thorough: all 13 lengths for d in {13,256}, L in {0,1,64} and key lengths {0,64}, four lengths elsewhere, 4 levels (8193 bytes) for d=256 unkeyed), bit residue 3 on one length; contents and key symbolic; compression through its contract')
def _(c):
    d, L, klen, n = c.case('d'), c.case('L'), c.case('klen'), c.case('n')
    install_f(c)
    key = c.bytes('K', klen); M = c.bytes('M', n)
    h = c.call(md.MD6, d, key, L)
    out = c.call(md.MD6.__call__, h, M)
    c.ensure('digest', val.eq(out, M6.md6(d, list(M), None, list(key), L, None, True)))
    c.ensure('length', len(out) == -(-d // 8))
    if n in (1, 513):
        out = c.call(md.MD6.__call__, h, M, 8 * n - 5)
        c.ensure('bitlen', val.eq(out, M6.md6(d, list(M), 8 * n - 5, list(key), L, None, True)))

@obligation(P, 'MD6/known-answers', cls='E', domain={}, funcs=['crysp.md.MD6.__call__'], note='MD6 report examples (r=5) and default-round digests of the empty string, through the real compression')
def _(c):
    h = md.MD6(256, L=64); h.rounds = 5
    c.ensure('abc r=5', h(b'abc').hex() == '8854c14dc284f840ed71ad7ba542855ce189633e48c797a55121a746be48cec8')
    c.ensure('empty-256', md.MD6(256, L=64)(b'').hex() == 'bca38b24a804aa37d821d31af00f5598230122c5bbfc4c4ad5ed40e4258f04ca')
    c.ensure('spec-agrees', bytes(M6.md6(256, b'abc', rounds=5)).hex() == '8854c14dc284f840ed71ad7ba542855ce189633e48c797a55121a746be48cec8')

@obligation(P, 'canary/md6-taps', cls='L', canary=True, funcs=['crysp.md.MD6.f'])
def _(c):
    h = md.MD6(256); h.rounds = 1
    N = c.words('N', 89, 64)
    out = c.call(md.MD6.f, h, mkpoly(N))
    save = M6.TAPS
    try:
        M6.TAPS = (17, 18, 21, 31, 66)
        exp = M6.compress(N, 1)
    finally:
        M6.TAPS = save
    c.ensure('canary', val.eq(list(out.ival), exp))
