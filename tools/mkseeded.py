#!/usr/bin/env python3
# assemble /verif/seeded/<id>/ from the sub-agents' scratch worktrees (patch.diff, demo.py, meta.json)
import json, os, shutil, subprocess
HEAD = subprocess.check_output(['git', '-C', '/repo', 'log', '--format=%h', '-1'], text=True).strip()
DETECT = {
 'C01-1': 'C01: lastblock/boundary (quick) / lastblock/post (thorough) kind=SHA,p=56|120,r=7 clause bytes; __call__/bounded n=56,r=7',
 'C01-2': 'C01: __call__/rejects-long-bitlen (bitlen = 8|M|+1..7 accepted)',
 'C02-1': 'C02: block-ciphers/keys-of-equal-integer-value/cipher=AES (check strengthened for this seed: several cipher objects with keys that differ only in length in one process; the symbolic key-schedule obligations report UNDECIDED - dict store with a symbolic key); also C10 history/enumeration/kind=AES-created-after-siblings',
 'C02-2': 'C02: crysp.serpent.Serpent.__init__/post/n=31',
 'C03-1': 'C03: crysp.utils.operators.rol-ror/inverse/m=<non power of two> clause ror0/exact (also C08 rol-ror)',
 'C03-2': 'C03: crysp.des.TDEA/roundtrip/form=1x24|k1,k2,k3 clause identity (also C02 TDEA/post dir=dec)',
 'C04-1': 'C04: crysp.keccak.Keccak.__call__/bounded clause per-call-rate/output',
 'C04-2': 'C04: crysp.keccak.Keccak.__call__/bounded (rates not a multiple of 8, output longer than the rate) clause output',
 'C05-1': 'C05: CTR/post bs=8|16, n>=2 blocks clause ciphertext (solver model replayed)',
 'C05-2': 'C05: ECB-CBC/post pad=X923, aligned message',
 'C06-1': 'C06: core/post/kind=*,dr=odd clause core',
 'C06-2': 'C06: RC4.enc/continuity clause stream/state',
 'C07-1': 'C07: crysp.bits.unpack/post/l=<len%4 in 2,3>',
 'C07-2': 'C07: crysp.bits.Bits.__init__/int-list-bits clause bit(-n)',
 'C08-1': 'C08: crysp.bits.Bits.__setitem__/select kind=short clause rhs/operand-unchanged (check strengthened for this seed)',
 'C08-2': 'C08: crysp.bits.Bits.extend clause zeroextend/mask and then-invert',
 'C09-1': 'C09: hash-paddings/iterblocks kind=SHA512|SHA1024 r=7 and hash-paddings/lastblock/boundary p=56|112 r=7 (check strengthened for this seed: C09 had left the MD/SHA/BLAKE paddings to C01/C11); also C01 lastblock/boundary',
 'C09-2': 'C09: iterblocks/continuation clause per-block bitcnt',
 'C10-1': 'C10: havoc/blake2 clause digest; C11 Blake2.__call__/bounded clause defaults',
 'C10-2': 'C10: history/enumeration/kind=AES-created-after-siblings (check strengthened for this seed: forked histories, object created after its siblings)',
 'C11-1': 'C11: Blakepadding.lastblock/boundary p=56|112 r=6',
 'C11-2': 'C11: Blake2.update/one-block=compress/size=512,final=0|1 clause state (check strengthened for this seed: native falsification search with boundary plans when the solver is undecided)',
 'C12-1': 'C12: Skein.tree/bounded shape=1,2,3',
 'C12-2': 'C12: Skein.__call__/bounded clause bitlen=5',
 'C13-1': 'C13: crysp.hmac.HMAC/post klen==block and library-hashes klen=block',
 'C13-2': 'C13: crysp.hmac.HMAC/post clause rekeyed',
 'C14-1': 'C14: update/piecewise==one-shot; C09 iterblocks/continuation',
 'C14-2': 'C14: update/piecewise==one-shot (BLAKE family, 42 instances; concrete probe of the obligation body before the solvers, added for this seed because the 48 MB goal took the solvers 400 s to give up on)',
 'C15-1': 'C15: crc_table/sequence (check strengthened for this seed)',
 'C15-2': 'C15: crc32_fix/bounded clause fix_pos<n-4>/target',
 'C16-1': 'C16: crysp.poly.SubPoly.binop/post/op=- clause coefficients',
 'C16-2': 'C16: crysp.poly.SubPoly.concat-split-pack/post clause split/bigend',
 'C17-1': 'C17: MD6.__call__/bounded n=512|2048 (check strengthened for this seed)',
 'C17-2': 'C17: MD6.__call__/bounded d=13 and MD6.__init__/post',
 'C18-1': 'C18: table_rKT/sequence (check strengthened for this seed)',
 'C18-2': 'C18: WhiteDES.enc/programs clause repeat',
 'C19-1': 'C19: TLSH.__call__/model clause model (reuse after a None result)',
 'C19-2': 'C19: TLSH.__call__/model on the boundary inputs (check strengthened for this seed)',
 'C20-1': 'C20: permutk/parametric k==len',
 'C20-2': 'C20: exactsum/exhaustive-small (several lists in one process)',
}
REBASED = {'C01-2': '/tmp/rebase/C01_2.diff', 'C20-2': '/tmp/rebase/C20_2.diff'}
out = '/verif/seeded'
os.makedirs(out, exist_ok=True)
if not os.path.isdir('/tmp/wt'):
    # the sub-agents' worktrees are gone: only refresh the detection notes of the kept seeds
    for sid in sorted(os.listdir(out)):
        mp = os.path.join(out, sid, 'meta.json')
        if os.path.exists(mp):
            m = json.load(open(mp)); m['detected_by'] = DETECT.get(sid, m.get('detected_by')); json.dump(m, open(mp, 'w'), indent=1)
for p in (sorted(os.listdir('/tmp/wt')) if os.path.isdir('/tmp/wt') else []):
    d = '/tmp/wt/%s/_seed' % p
    if not os.path.isdir(d): continue
    for k in sorted(os.listdir(d)):
        sid = '%s-%s' % (p, k); src = os.path.join(d, k); dst = os.path.join(out, sid)
        os.makedirs(dst, exist_ok=True)
        shutil.copy(REBASED.get(sid, os.path.join(src, 'patch.diff')), os.path.join(dst, 'patch.diff'))
        shutil.copy(os.path.join(src, 'demo.py'), os.path.join(dst, 'demo.py'))
        m = json.load(open(os.path.join(src, 'meta.json')))
        meta = {'property': p, 'summary': m.get('summary'), 'needs': m.get('needs'), 'files': m.get('files'),
                'origin': 'independent sub-agent given only the property text and a scratch worktree' + (' (patch re-based by hand onto the repaired tree: the original hunk context was changed by a later fix: commit)' if sid in REBASED else ''),
                'confirmed': {'tree': 'scratch copy of /repo HEAD %s' % HEAD, 'applies': True, 'tests_with_change': '120 passed', 'demo_with_change': 'FAIL (exit 1)', 'demo_without_change': 'PASS (exit 0)',
                              'commands': ['tools/validate_seeds.sh', 'tools/mut.sh seeded/%s/patch.diff %s quick' % (sid, p)]},
                'detected_by': DETECT.get(sid, 'see DESIGN.md 0.5')}
        json.dump(meta, open(os.path.join(dst, 'meta.json'), 'w'), indent=1)
print(len(os.listdir(out)), 'seeds')
