# Symbolic value domain of the verifier: mathematical integers encoded as
# interval-typed z3 bit-vectors.  Every operator first computes the exact result
# interval, widens both operands to a width that holds it, then applies the
# bit-vector operator -- so no operation wraps and a term always denotes the
# mathematical integer Python would compute (DESIGN.md section 3.2).
import z3

from .errors import EngineError, LeakError

def bits_for(lo, hi):
    """(width, signed) needed to represent every integer in [lo,hi] exactly"""
    if lo >= 0:
        return max(1, hi.bit_length()), False
    w = max(hi.bit_length() + 1 if hi >= 0 else 1, (-lo - 1).bit_length() + 1)
    return w, True

class SymBool:
    _sym = True
    __slots__ = ('t',)
    def __init__(self, t): self.t = t
    def __bool__(self): raise LeakError('symbolic bool leaked to native bool()')
    def __repr__(self): return 'SymBool(%s)' % str(self.t)[:60]
    def __hash__(self): return id(self)

def mkbool(t):
    if z3.is_true(t): return True
    if z3.is_false(t): return False
    return SymBool(t)

def bterm(b):
    if isinstance(b, SymBool): return b.t
    if isinstance(b, SymInt): return (b != 0).t if isinstance(b != 0, SymBool) else z3.BoolVal(bool(b != 0))
    return z3.BoolVal(bool(b))

def land(*cs):
    ts = []
    for c in cs:
        if isinstance(c, SymInt): c = (c != 0)
        if isinstance(c, SymBool): ts.append(c.t)
        elif not c: return False
    if not ts: return True
    return mkbool(z3.And(ts) if len(ts) > 1 else ts[0])

def lor(*cs):
    ts = []
    for c in cs:
        if isinstance(c, SymInt): c = (c != 0)
        if isinstance(c, SymBool): ts.append(c.t)
        elif c: return True
    if not ts: return False
    return mkbool(z3.Or(ts) if len(ts) > 1 else ts[0])

def lnot(c):
    if isinstance(c, SymInt): c = (c != 0)
    if isinstance(c, SymBool): return mkbool(z3.Not(c.t))
    return not c

class SymInt:
    _sym = True
    __slots__ = ('t', 'lo', 'hi', 'w', 'signed', 'aff')
    def __init__(self, t, lo, hi):
        self.t = t; self.lo = lo; self.hi = hi; self.aff = None
        self.w, self.signed = bits_for(lo, hi)
        assert t.size() == self.w, (t.size(), self.w, lo, hi)
    def __repr__(self): return 'SymInt[%d..%d]' % (self.lo, self.hi) if self.hi < 1 << 64 else 'SymInt[%d bits]' % self.w
    def __bool__(self): raise LeakError('symbolic int leaked to native bool()')
    def __index__(self): raise LeakError('symbolic int leaked to native __index__')
    def __int__(self): raise LeakError('symbolic int leaked to native int()')
    def __hash__(self): return id(self)
    def __format__(self, s): raise LeakError('symbolic int leaked to format')
    def __str__(self): raise LeakError('symbolic int leaked to str')
    def bit_length(self):
        if self.lo < 0: raise EngineError('bit_length of possibly negative symbolic int')
        w = self.w
        rw = max(1, w.bit_length())
        t = z3.BitVecVal(0, rw)
        for k in range(w):
            t = z3.If(z3.Extract(k, k, self.t) == 1, z3.BitVecVal(k + 1, rw), t)
        return mk(t, self.lo.bit_length(), self.hi.bit_length())

def fresh(name, lo, hi):
    if lo == hi: return lo
    w, s = bits_for(lo, hi)
    r = SymInt(z3.BitVec(name, w), lo, hi)
    r.aff = (name, 1, 0)
    _ROOTS[name] = r
    return r

_ROOTS = {}
def _aff_exact_div(a, m):
    """a // m when a's exact affine form c*root + k has c and k divisible by m (no rounding involved)"""
    f = _aff(a)
    if f is None or f[0] is None or f[1] % m or f[2] % m or f[0] not in _ROOTS: return None
    return _add(lift(_mul(_ROOTS[f[0]], lift(f[1] // m))), lift(f[2] // m))

def _aff(x):
    """exact affine form (root symbol, coefficient, constant) of a lifted value, when known"""
    if x.lo == x.hi: return (None, 0, x.lo)
    return x.aff

def _aff_combine(a, b, sign):
    fa, fb = _aff(a), _aff(b)
    if fa is None or fb is None: return None
    if fa[0] is not None and fb[0] is not None and fa[0] != fb[0]: return None
    root = fa[0] if fa[0] is not None else fb[0]
    return (root, fa[1] + sign * fb[1], fa[2] + sign * fb[2])

def _with_aff(r, f):
    if f is None: return r
    if f[1] == 0: return f[2]             # the symbolic parts cancel exactly: a constant
    if isinstance(r, SymInt): r.aff = f
    return r

def lift(x):
    if isinstance(x, SymInt): return x
    if isinstance(x, bool): x = int(x)
    if isinstance(x, int):
        w, s = bits_for(x, x)
        return SymInt(z3.BitVecVal(x, w), x, x)
    return None

def ext(a, w):
    """term of a at width w (w >= a.w), value preserving"""
    if w == a.w: return a.t
    assert w > a.w, (w, a.w)
    return z3.SignExt(w - a.w, a.t) if a.signed else z3.ZeroExt(w - a.w, a.t)

def extract(hi, lo, t):
    """Extract(hi,lo,t) composed with the extraction / extension / concatenation t is built from"""
    n = t.size()
    if lo == 0 and hi == n - 1: return t
    d = t.decl().kind()
    if d == z3.Z3_OP_EXTRACT:
        h2, l2 = t.params()
        return extract(hi + l2, lo + l2, t.arg(0))
    if d in (z3.Z3_OP_ZERO_EXT, z3.Z3_OP_SIGN_EXT):
        u = t.arg(0)
        if hi < u.size(): return extract(hi, lo, u)
        if d == z3.Z3_OP_ZERO_EXT and lo >= u.size(): return z3.BitVecVal(0, hi - lo + 1)
    if d == z3.Z3_OP_CONCAT:
        off = 0; pieces = []
        for c in reversed(t.children()):
            a, b = max(lo, off), min(hi, off + c.size() - 1)
            if a <= b: pieces.append(extract(b - off, a - off, c))
            off += c.size()
        pieces.reverse()
        return concat(pieces)
    if z3.is_bv_value(t):
        return z3.BitVecVal((t.as_long() >> lo) & ((1 << (hi - lo + 1)) - 1), hi - lo + 1)
    return z3.Extract(hi, lo, t)

class _P(object):
    """one part of a concatenation with its metadata cached (z3py accessor calls are the hot spot otherwise)"""
    __slots__ = ('t', 'id', 'size', 'val', 'hi', 'lo', 'base', 'baseid')
    def __init__(self, t):
        self.t = t; self.id = t.get_id(); self.size = t.size(); self.val = None; self.base = None
        if z3.is_bv_value(t): self.val = t.as_long()
        elif t.decl().kind() == z3.Z3_OP_EXTRACT:
            self.hi, self.lo = t.params(); self.base = t.arg(0); self.baseid = self.base.get_id()

_PARTS = {}     # id of a concatenation built by concat() -> (term, canonical list of _P parts)
_TERM_OF = {}   # tuple of part ids -> term: a concatenation that extends a known one reuses its term
def _plist(t):
    r = _PARTS.get(t.get_id())
    if r is not None: return r[1]
    if t.decl().kind() == z3.Z3_OP_CONCAT:
        out = []
        for c in t.children(): _extend(out, _plist(c))
        return out
    return [_P(t)]

def _parts(t):
    """the parts (most significant first) of a concatenation, as terms"""
    return [p.t for p in _plist(t)]

def _merge2(q, p):
    """merged part when q (more significant) and p are adjacent numerals or adjacent extractions of one term, else None"""
    if q.val is not None and p.val is not None:
        return _P(z3.BitVecVal((q.val << p.size) | p.val, q.size + p.size))
    if q.base is not None and p.base is not None and q.lo == p.hi + 1 and q.baseid == p.baseid:
        return _P(extract(q.hi, p.lo, q.base))
    return None

def _extend(out, ps):
    """append the canonical part list ps to out, merging at the seam only"""
    first = True
    for q in ps:
        if first and out:
            m = _merge2(out[-1], q)
            while m is not None:
                out.pop(); q = m
                m = _merge2(out[-1], q) if out else None
        first = False
        out.append(q)

def concat(parts):
    """concatenation (most significant part first) with adjacent extractions of one term and adjacent numerals merged"""
    out = []
    for p in parts: _extend(out, [p] if isinstance(p, _P) else _plist(p))
    if len(out) == 1: return out[0].t
    key = tuple([x.id for x in out])
    hit = _TERM_OF.get(key)
    if hit is not None: return hit
    pre = _TERM_OF.get(key[:-1]) if len(out) > 2 else None
    if pre is not None: t = z3.Concat(pre, out[-1].t)
    else:
        suf = _TERM_OF.get(key[1:]) if len(out) > 2 else None
        t = z3.Concat(out[0].t, suf) if suf is not None else z3.Concat(*[x.t for x in out])
    _TERM_OF[key] = t
    _PARTS[t.get_id()] = (t, out)
    return t

def _is_zero_low(t, k):
    """t == Concat(hi, 0_k') with k' >= k ?  returns hi-part list or None"""
    ps = _plist(t)
    last = ps[-1]
    if last.val == 0 and last.size >= k:
        return ps
    return None

_LOWOPS = None
_low_cache = {}
def low(t, k):
    """the k low bits of bit-vector term t, with the extraction pushed through the operators whose low
    bits depend only on the low bits of their arguments -- so that modular arithmetic written with
    intermediate masks and modular arithmetic written with one final mask build the same term"""
    global _LOWOPS
    n = t.size()
    if k == n: return t
    assert 0 < k < n, (k, n)
    key = (t.get_id(), k)
    r = _low_cache.get(key)
    if r is not None: return r[1]
    if _LOWOPS is None:
        _LOWOPS = {z3.Z3_OP_BADD, z3.Z3_OP_BSUB, z3.Z3_OP_BMUL, z3.Z3_OP_BNEG, z3.Z3_OP_BAND, z3.Z3_OP_BOR, z3.Z3_OP_BXOR, z3.Z3_OP_BNOT}
    d = t.decl().kind()
    if z3.is_bv_value(t):
        r = z3.BitVecVal(t.as_long() & ((1 << k) - 1), k)
    elif d in (z3.Z3_OP_ZERO_EXT, z3.Z3_OP_SIGN_EXT):
        u = t.arg(0)
        if k <= u.size(): r = low(u, k)
        elif d == z3.Z3_OP_ZERO_EXT: r = z3.ZeroExt(k - u.size(), u)
        else: r = z3.SignExt(k - u.size(), u)
    elif d in _LOWOPS and not _lowerable(t, k):
        r = extract(k - 1, 0, t)
    elif d in _LOWOPS:
        ch = [low(c, k) for c in t.children()]
        if d == z3.Z3_OP_BADD:
            r = ch[0]
            for c in ch[1:]: r = r + c
        elif d == z3.Z3_OP_BSUB:
            r = ch[0]
            for c in ch[1:]: r = r - c
        elif d == z3.Z3_OP_BMUL:
            r = ch[0]
            for c in ch[1:]: r = r * c
        elif d == z3.Z3_OP_BAND:
            r = ch[0]
            for c in ch[1:]: r = r & c
        elif d == z3.Z3_OP_BOR:
            r = ch[0]
            for c in ch[1:]: r = r | c
        elif d == z3.Z3_OP_BXOR:
            r = ch[0]
            for c in ch[1:]: r = r ^ c
        elif d == z3.Z3_OP_BNEG: r = -ch[0]
        else: r = ~ch[0]
    elif d == z3.Z3_OP_CONCAT:
        ch = t.children()
        acc = []; have = 0
        for c in reversed(ch):
            if have >= k: break
            need = k - have
            if c.size() <= need: acc.append(c); have += c.size()
            else: acc.append(low(c, need)); have += need
        acc.reverse()
        r = concat(acc)
    elif d == z3.Z3_OP_EXTRACT:
        hi_, lo_ = t.params()
        r = extract(lo_ + k - 1, lo_, t.arg(0))
    elif d == z3.Z3_OP_ITE:
        r = z3.If(t.arg(0), low(t.arg(1), k), low(t.arg(2), k))
    else:
        r = extract(k - 1, 0, t)
    _low_cache[key] = (t, r)      # keep t alive so that its id is not reused
    return r

_lowerable_cache = {}
def _lowerable(t, k):
    """True when t is a cone of widened arithmetic over leaves of at most k bits (then taking the k low bits
    just undoes the widening); False when it would duplicate a shared full-width computation at a narrower width"""
    if t.size() <= k: return True
    key = (t.get_id(), k)
    r = _lowerable_cache.get(key)
    if r is not None: return r[1]
    d = t.decl().kind()
    if d in (z3.Z3_OP_ZERO_EXT, z3.Z3_OP_SIGN_EXT): r = _lowerable(t.arg(0), k)
    elif d in (z3.Z3_OP_BAND, z3.Z3_OP_BOR, z3.Z3_OP_BXOR, z3.Z3_OP_BNOT): r = True     # bit-parallel: slicing commutes, nothing is recomputed
    elif d in _LOWOPS: r = all(_lowerable(c, k) for c in t.children())               # adders/multipliers: only undo a widening
    elif z3.is_bv_value(t): r = True
    elif d == z3.Z3_OP_ITE: r = _lowerable(t.arg(1), k) and _lowerable(t.arg(2), k)
    else: r = False
    _lowerable_cache[key] = (t, r)
    return r

def mk(t, lo, hi):
    """build result; collapse to python int when constant"""
    if lo == hi: return lo
    w, s = bits_for(lo, hi)
    if t.size() > w: t = low(t, w)
    elif t.size() < w:
        raise AssertionError('narrow term')
    if z3.is_bv_value(t):
        return t.as_signed_long() if s else t.as_long()
    return SymInt(t, lo, hi)

def uterm(x, w):
    """unsigned w-bit term of a non-negative int-like known to fit (checked)"""
    x = lift(x)
    if x.lo < 0 or x.hi >= (1 << w): raise EngineError('value does not fit %d bits: [%d,%d]' % (w, x.lo, x.hi))
    if x.w == w: return x.t
    if x.w < w: return z3.ZeroExt(w - x.w, x.t)
    return low(x.t, w)

def from_term(t):
    """unsigned SymInt of a bit-vector term (full range)"""
    return mk(t, 0, (1 << t.size()) - 1)

def _arith(op):
    def f(a, b):
        b = lift(b)
        if b is None: return NotImplemented
        return op(a, b)
    def r(a, b):
        b = lift(b)
        if b is None: return NotImplemented
        return op(b, a)
    return f, r

def _add(a, b):
    if b.lo == 0 and b.hi == 0: return a
    if a.lo == 0 and a.hi == 0: return b
    f = _aff_combine(a, b, 1)
    if f is not None and f[1] == 0: return f[2]
    lo, hi = a.lo + b.lo, a.hi + b.hi
    w, s = bits_for(lo, hi); w = max(w, a.w + 1, b.w + 1)
    return _with_aff(mk(ext(a, w) + ext(b, w), lo, hi), f)
def _sub(a, b):
    if b.lo == 0 and b.hi == 0: return a
    f = _aff_combine(a, b, -1)
    if f is not None and f[1] == 0: return f[2]
    lo, hi = a.lo - b.hi, a.hi - b.lo
    w, s = bits_for(lo, hi); w = max(w, a.w + 1, b.w + 1)
    return _with_aff(mk(ext(a, w) - ext(b, w), lo, hi), f)
def _mul(a, b):
    for x, y in ((a, b), (b, a)):
        if y.lo == y.hi:
            if y.lo == 1: return x
            if y.lo == 0: return 0
            if y.lo > 0 and y.lo & (y.lo - 1) == 0:
                fx = _aff(x)
                return _with_aff(_lshift(x, lift(y.lo.bit_length() - 1)), (fx[0], fx[1] * y.lo, fx[2] * y.lo) if fx is not None else None)
    c = [a.lo * b.lo, a.lo * b.hi, a.hi * b.lo, a.hi * b.hi]
    lo, hi = min(c), max(c)
    if lo == hi: return lo
    w = a.w + b.w + 1
    fa, fb = _aff(a), _aff(b)
    f = None
    if fa is not None and fb is not None:
        if fa[0] is None: f = (fb[0], fb[1] * fa[2], fb[2] * fa[2])
        elif fb[0] is None: f = (fa[0], fa[1] * fb[2], fa[2] * fb[2])
    return _with_aff(mk(ext(a, w) * ext(b, w), lo, hi), f)
def _and(a, b):
    if (a.lo == 0 and a.hi == 0) or (b.lo == 0 and b.hi == 0): return 0
    if a.lo >= 0 and b.lo >= 0:
        hi = min(a.hi, b.hi)
        # an all-ones constant mask is an extraction
        for x, y in ((a, b), (b, a)):
            if y.lo == y.hi and (y.lo & (y.lo + 1)) == 0:
                k = y.lo.bit_length()
                if k == 0: return 0
                if x.w <= k: return x
                return mk(low(x.t, k), 0, min(x.hi, y.lo))
        w = max(a.w, b.w)
        hi = (1 << min(a.w, b.w)) - 1 if hi >= (1 << min(a.w, b.w)) else hi
        return mk(ext(a, w) & ext(b, w), 0, hi)
    if a.lo >= 0 or b.lo >= 0:
        p = a if a.lo >= 0 else b
        q = b if a.lo >= 0 else a
        if p.lo == p.hi and (p.lo & (p.lo + 1)) == 0 and p.lo > 0:
            k = p.lo.bit_length()
            return mk(low(ext(q, max(q.w, k + 1)), k), 0, p.lo)
        w = max(a.w, b.w) + 1
        return mk(ext(a, w) & ext(b, w), 0, p.hi)
    w = max(a.w, b.w)
    return mk(ext(a, w) & ext(b, w), -(1 << (w - 1)), (1 << (w - 1)) - 1)
def _orx(op, is_or=False):
    def g(a, b):
        if a.lo == 0 and a.hi == 0: return b
        if b.lo == 0 and b.hi == 0: return a
        if a.lo >= 0 and b.lo >= 0:
            for x, y in ((a, b), (b, a)):
                if x.w > y.w:
                    ps = _is_zero_low(x.t, y.w)
                    if ps is not None:
                        # x = hi || 0..0 and y fits into the zero part: the or/xor is a concatenation
                        z = ps[-1].size
                        mid = [z3.BitVecVal(0, z - y.w)] if z > y.w else []
                        return mk(concat(ps[:-1] + mid + [y.t]), 0, (1 << x.w) - 1)
            w = max(a.w, b.w)
            return mk(op(ext(a, w), ext(b, w)), 0, (1 << w) - 1)
        w = max(a.w, b.w) + 1
        return mk(op(ext(a, w), ext(b, w)), -(1 << (w - 1)), (1 << (w - 1)) - 1)
    return g
def _lshift(a, b):
    if b.lo < 0: raise EngineError('possibly negative shift count')
    if b.lo == b.hi:
        k = b.lo
        if k == 0: return a
        t = concat([a.t, z3.BitVecVal(0, k)])
        return mk(t, a.lo << k, a.hi << k)
    k = b.hi
    if k > 4096: raise EngineError('symbolic shift too wide')
    w = max(a.w + k, b.w)
    c = [a.lo << b.lo, a.lo << b.hi, a.hi << b.lo, a.hi << b.hi]
    return mk(ext(a, w) << ext(b, w), min(c), max(c))
def _rshift(a, b):
    if b.lo < 0: raise EngineError('possibly negative shift count')
    if b.lo == b.hi:
        k = b.lo
        if k == 0: return a
        if a.lo >= 0:
            r = _aff_exact_div(a, 1 << k)
            if r is not None: return r
        if k >= a.w:
            if not a.signed: return 0
            return mk(z3.SignExt(0, z3.Extract(a.w - 1, a.w - 1, a.t)), -1, 0 if a.hi >= 0 else -1)
        return mk(extract(a.w - 1, k, a.t), a.lo >> k, a.hi >> k)
    w = max(a.w, b.w)
    t = (ext(a, w) >> ext(b, w)) if a.signed else z3.LShR(ext(a, w), ext(b, w))
    c = [a.lo >> b.hi, a.lo >> b.lo, a.hi >> b.lo, a.hi >> b.hi]
    return mk(t, min(c), max(c))
def _mod(a, b):
    if b.lo != b.hi or b.lo <= 0: raise EngineError('mod by symbolic or non-positive value')
    m = b.lo
    fa = _aff(a)
    if fa is not None and fa[0] is not None and fa[1] % m == 0: return fa[2] % m
    if m & (m - 1) == 0:
        k = m.bit_length() - 1
        if k == 0: return 0
        if a.lo >= 0 and a.hi < m: return a
        w = max(a.w, k)
        return mk(low(ext(a, w), k) if w > k else ext(a, w), 0, m - 1)
    if a.lo >= 0 and a.hi < m: return a
    w = max(a.w, b.w) + 1
    av = ext(a, w); bv = z3.BitVecVal(m, w)
    if a.signed:
        t = z3.SRem(av, bv)
        t = z3.If(t < 0, t + bv, t)   # python floor-mod for positive modulus
    else:
        t = z3.URem(av, bv)
    return mk(t, 0, m - 1)
def _floordiv(a, b):
    if b.lo != b.hi or b.lo <= 0: raise EngineError('floordiv by symbolic or non-positive value')
    m = b.lo
    if m & (m - 1) == 0:
        return _rshift(a, lift(m.bit_length() - 1))
    if a.lo < 0: raise EngineError('floordiv of possibly negative value by non power of two')
    w = max(a.w, b.w)
    return mk(z3.UDiv(ext(a, w), z3.BitVecVal(m, w)), a.lo // m, a.hi // m)

for nm, fn in [('add', _add), ('sub', _sub), ('mul', _mul), ('and', _and), ('or', _orx(lambda x, y: x | y)),
               ('xor', _orx(lambda x, y: x ^ y)), ('lshift', _lshift), ('rshift', _rshift), ('mod', _mod),
               ('floordiv', _floordiv)]:
    f, r = _arith(fn)
    setattr(SymInt, '__%s__' % nm, f); setattr(SymInt, '__r%s__' % nm, r)

def _neg(a): return _sub(lift(0), a)
def _inv(a): return _sub(lift(-1), a)
def _abs(a):
    if a.lo >= 0: return a
    if a.hi <= 0: return _neg(a)
    w = a.w + 1
    t = ext(a, w)
    return mk(z3.If(t < 0, -t, t), 0, max(-a.lo, a.hi))
SymInt.__neg__ = _neg; SymInt.__invert__ = _inv; SymInt.__abs__ = _abs; SymInt.__pos__ = lambda a: a
def _divmod(a, b): return (a // b, a % b)
SymInt.__divmod__ = _divmod

def _cmp(kind):
    def f(a, b):
        b = lift(b)
        if b is None:
            if kind == 'eq': return False
            if kind == 'ne': return True
            return NotImplemented
        if kind == 'lt':
            if a.hi < b.lo: return True
            if a.lo >= b.hi: return False
        if kind == 'le':
            if a.hi <= b.lo: return True
            if a.lo > b.hi: return False
        if kind == 'gt':
            if a.lo > b.hi: return True
            if a.hi <= b.lo: return False
        if kind == 'ge':
            if a.lo >= b.hi: return True
            if a.hi < b.lo: return False
        if kind in ('eq', 'ne'):
            if a.hi < b.lo or b.hi < a.lo: return kind == 'ne'
        sg = a.signed or b.signed
        w = max(a.w + (0 if a.signed or not sg else 1), b.w + (0 if b.signed or not sg else 1))
        x, y = ext(a, w), ext(b, w)
        if sg:
            t = {'lt': x < y, 'le': x <= y, 'gt': x > y, 'ge': x >= y, 'eq': x == y, 'ne': x != y}[kind]
        else:
            t = {'lt': z3.ULT(x, y), 'le': z3.ULE(x, y), 'gt': z3.UGT(x, y), 'ge': z3.UGE(x, y), 'eq': x == y, 'ne': x != y}[kind]
        return mkbool(t)
    return f
for k in ('lt', 'le', 'gt', 'ge', 'eq', 'ne'):
    setattr(SymInt, '__%s__' % k, _cmp(k))

def select(lst, idx):
    """lst: python sequence of ints/SymInts, idx: SymInt -> ITE chain (exact within idx interval)"""
    idx = lift(idx)
    n = len(lst)
    # the caller has established 0 <= idx < n on the current path (see SInterp.subscript)
    lo, hi = max(idx.lo, 0), min(idx.hi, n - 1)
    if lo > hi: raise IndexError('list index out of range')
    aff = _affine_table(lst, idx, lo, hi)
    if aff is not None: return aff
    items = [lift(x) for x in lst[lo:hi + 1]]
    if any(i is None for i in items): raise EngineError('symbolic index into a list of non-integers')
    rlo, rhi = min(i.lo for i in items), max(i.hi for i in items)
    if rlo == rhi: return rlo
    w, s = bits_for(rlo, rhi)
    t = ext(items[-1], w)
    iw = idx.w
    for k in range(len(items) - 2, -1, -1):
        t = z3.If(idx.t == z3.BitVecVal(lo + k, iw), ext(items[k], w), t)
    return mk(t, rlo, rhi)

_aff_tables = {}
def _affine_table(lst, idx, lo, hi):
    """lookup in a concrete table that is GF(2)-affine in the index bits (e.g. CRC tables): T[n] = T[0] xor XOR_i n_i*(T[2^i] xor T[0]),
    checked on every entry; the lookup is then written as that xor of conditional constants (an exact identity, no ITE chain)"""
    n = len(lst)
    if lo != 0 or n < 4 or n & (n - 1) or hi != n - 1: return None
    if not all(type(x) is int and x >= 0 for x in lst): return None
    key = tuple(lst)
    r = _aff_tables.get(key)
    if r is None:
        k = n.bit_length() - 1
        base = lst[0]; cols = [lst[1 << i] ^ base for i in range(k)]
        ok = True
        for m in range(n):
            v = base
            for i in range(k):
                if (m >> i) & 1: v ^= cols[i]
            if v != lst[m]: ok = False; break
        r = _aff_tables[key] = (base, cols) if ok else False
    if r is False: return None
    base, cols = r
    if not any(cols) : return base
    w = max(1, max(lst).bit_length())
    t = z3.BitVecVal(base, w)
    for i, cst in enumerate(cols):
        if cst == 0: continue
        bit = extract(i, i, idx.t) if i < idx.w else z3.BitVecVal(0, 1)
        t = t ^ z3.If(bit == z3.BitVecVal(1, 1), z3.BitVecVal(cst, w), z3.BitVecVal(0, w))
    return mk(t, 0, (1 << w) - 1)

def ite(c, a, b):
    if not isinstance(c, (SymBool, SymInt)): return a if c else b
    if isinstance(c, SymInt): c = (c != 0)
    if not isinstance(c, SymBool): return a if c else b
    a, b = lift(a), lift(b)
    lo, hi = min(a.lo, b.lo), max(a.hi, b.hi)
    w, s = bits_for(lo, hi)
    return mk(z3.If(c.t, ext(a, w), ext(b, w)), lo, hi)

def eqterm(a, b):
    """bool-like equality of two int-likes"""
    if isinstance(a, SymInt): return a == b
    if isinstance(b, SymInt): return b == a
    return a == b

def rev8(b):
    """bit reversal of a symbolic byte (0..255), built in one step"""
    t = uterm(b, 8)
    return mk(concat([extract(i, i, t) for i in range(8)]), 0, 255)

def refine_nonneg(b):
    """the same value as b, typed as non-negative (the caller has established b >= 0 on the current path)"""
    if not isinstance(b, SymInt) or b.lo >= 0: return b
    if b.hi <= 0: return 0
    w, _ = bits_for(0, b.hi)
    return mk(extract(w - 1, 0, b.t) if b.w > w else b.t, 0, b.hi)
