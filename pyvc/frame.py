# Frame support for history-independence obligations (C10): which attributes of an object can a history change, an
# arbitrary ("havocked") value of the same shape for each of them, and a structural snapshot of an object's state.
# The mutable set is recomputed from the repository's current AST on every run, so an attribute that a change starts to
# write is havocked without touching the obligation.
import ast, inspect, textwrap

MUTATORS = {'append', 'extend', 'pop', 'insert', 'remove', 'clear', 'update', 'sort', 'reverse', 'setdefault', 'popitem', 'add', 'discard'}

def _is_repo_class(k):
    return getattr(k, '__module__', '').startswith('crysp')

def _self_attr(node, selfname):
    """X if node is  self.X  or  self.X[...]...  (the attribute that a store through node changes)"""
    while isinstance(node, (ast.Subscript, ast.Attribute)):
        if isinstance(node, ast.Attribute) and isinstance(node.value, ast.Name) and node.value.id == selfname: return node.attr
        node = node.value
    return None

def mutable_attrs(cls):
    """attribute names that some method other than __init__ (in the class or its repository bases) assigns, augments,
    stores into, deletes, or calls a mutating method on -- i.e. everything a sequence of calls can change through self"""
    out = set()
    for k in cls.__mro__:
        if not _is_repo_class(k): continue
        for name, f in vars(k).items():
            if isinstance(f, property): fs = [g for g in (f.fget, f.fset, f.fdel) if g]
            elif isinstance(f, (staticmethod, classmethod)): fs = [f.__func__]
            elif inspect.isfunction(f): fs = [f]
            else: continue
            for g in fs:
                if g.__name__ == '__init__': continue
                try: tree = ast.parse(textwrap.dedent(inspect.getsource(g)))
                except (OSError, TypeError, SyntaxError): continue
                fn = tree.body[0]
                if not isinstance(fn, (ast.FunctionDef, ast.Lambda)) or not fn.args.args: continue
                selfname = fn.args.args[0].arg
                for n in ast.walk(fn):
                    targets = []
                    if isinstance(n, ast.Assign): targets = n.targets
                    elif isinstance(n, (ast.AugAssign, ast.AnnAssign)): targets = [n.target]
                    elif isinstance(n, ast.Delete): targets = n.targets
                    elif isinstance(n, (ast.For, ast.comprehension)): targets = [n.target]
                    elif isinstance(n, ast.With): targets = [i.optional_vars for i in n.items if i.optional_vars is not None]
                    elif isinstance(n, ast.Call) and isinstance(n.func, ast.Attribute):
                        if n.func.attr in MUTATORS:
                            a = _self_attr(n.func.value, selfname)
                            if a: out.add(_mangle(k, a))
                        if n.func.attr in ('__setattr__',) or (isinstance(n.func.value, ast.Name) and n.func.value.id == selfname and n.func.attr == '__dict__'):
                            out.add('*')
                    elif isinstance(n, ast.Call) and isinstance(n.func, ast.Name) and n.func.id in ('setattr', 'delattr', 'vars'):
                        if n.args and isinstance(n.args[0], ast.Name) and n.args[0].id == selfname: out.add('*')
                    todo = list(targets)
                    while todo:
                        t = todo.pop()
                        if isinstance(t, (ast.Tuple, ast.List)): todo.extend(t.elts); continue
                        if isinstance(t, ast.Starred): todo.append(t.value); continue
                        a = _self_attr(t, selfname)
                        if a: out.add(_mangle(k, a))
    return out

def _mangle(k, a):
    return '_%s%s' % (k.__name__.lstrip('_'), a) if a.startswith('__') and not a.endswith('__') else a

def _havoc_value(c, v, name, notes, depth=0):
    from crysp.bits import Bits
    from crysp.poly import Poly
    if isinstance(v, bool):
        return c.int(name, 0, 1) == 1
    if isinstance(v, int):
        return c.int(name, 0, 1 << 70)
    if isinstance(v, Poly):
        p = Poly([0] * v.dim, v.size); p.ival = [c.word('%s[%d]' % (name, i), v.size) for i in range(v.dim)]; return p
    if isinstance(v, Bits):
        if v.size == 0: return v
        b = type(v).__new__(type(v)); b.__dict__.update(v.__dict__) if hasattr(v, '__dict__') else None
        b = Bits(0, v.size); b.ival = c.word(name, v.size); return b
    if isinstance(v, (bytes, bytearray)):
        return c.bytes(name, len(v))
    if isinstance(v, list):
        return [_havoc_value(c, x, '%s[%d]' % (name, i), notes, depth + 1) for i, x in enumerate(v)]
    if isinstance(v, tuple):
        return tuple(_havoc_value(c, x, '%s[%d]' % (name, i), notes, depth + 1) for i, x in enumerate(v))
    if _is_repo_class(type(v)) and hasattr(v, '__dict__') and depth < 3:
        _havoc_obj(c, v, name + '.', notes, depth + 1)
        return v
    notes.append('%s (%s) kept' % (name, type(v).__name__))
    return v

def has_mutable_state(v, depth=0):
    if not (_is_repo_class(type(v)) and hasattr(v, '__dict__')) or depth > 3: return False
    from crysp.bits import Bits
    if isinstance(v, Bits): return False
    return bool(mutable_attrs(type(v))) or any(has_mutable_state(x, depth + 1) for x in vars(v).values())

def _havoc_obj(c, obj, prefix, notes, depth):
    names = mutable_attrs(type(obj))
    done = []
    for k in sorted(vars(obj)):
        v = getattr(obj, k)
        if k in names or '*' in names or has_mutable_state(v):
            setattr(obj, k, _havoc_value(c, v, prefix + k, notes, depth)); done.append(prefix + k)
    return done

def havoc(c, obj):
    """set every attribute of obj that a history can change (through self, or through a sub-object with mutable state of
    its own) to an arbitrary value of the same shape; -> (havocked names, attributes kept with the reason)"""
    notes = []
    return _havoc_obj(c, obj, '', notes, 0), notes

def state_of(v, depth=0):
    """structural snapshot: nested tuples with int / symbolic leaves; functions and other objects by identity"""
    from crysp.bits import Bits
    from crysp.poly import Poly
    if isinstance(v, Poly): return ('Poly', v.size, tuple(v.ival))
    if isinstance(v, Bits): return ('Bits', v.size, v.ival)
    if isinstance(v, (list, tuple)): return (type(v).__name__,) + tuple(state_of(x, depth + 1) for x in v)
    if isinstance(v, dict): return ('dict',) + tuple((k, state_of(x, depth + 1)) for k, x in sorted(v.items(), key=lambda kv: repr(kv[0])))
    if getattr(v, '_sym', False) and hasattr(v, 'items') and not isinstance(v, dict): return ('bytes',) + tuple(v.items)
    if isinstance(v, (bytes, bytearray)): return ('bytes',) + tuple(v)
    if _is_repo_class(type(v)) and hasattr(v, '__dict__') and depth < 4:
        return (type(v).__name__,) + tuple((k, state_of(x, depth + 1)) for k, x in sorted(vars(v).items()))
    if isinstance(v, (int, str, type(None), float)) or getattr(v, '_sym', False): return v
    return ('id', type(v).__name__, getattr(v, '__qualname__', None) or id(v))

def same(a, b):
    """structural equality of two snapshots -> bool or symbolic condition"""
    from .val import land, eq
    if isinstance(a, tuple) and isinstance(b, tuple):
        if len(a) != len(b): return False
        return land(*[same(x, y) for x, y in zip(a, b)]) if a else True
    if isinstance(a, tuple) or isinstance(b, tuple): return False
    if getattr(a, '_sym', False) or getattr(b, '_sym', False): return eq(a, b)
    return a == b

def diff(a, b, path=''):
    """first concrete structural difference (for messages)"""
    if isinstance(a, tuple) and isinstance(b, tuple):
        if len(a) != len(b): return '%s: %d vs %d items' % (path, len(a), len(b))
        for i, (x, y) in enumerate(zip(a, b)):
            d = diff(x, y, '%s/%s' % (path, x[0] if isinstance(x, tuple) and x and isinstance(x[0], str) else i))
            if d: return d
        return None
    if getattr(a, '_sym', False) or getattr(b, '_sym', False): return None
    return None if a == b else '%s: %r vs %r' % (path, a, b)
