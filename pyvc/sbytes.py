# Byte strings of concrete length whose bytes may be symbolic, plus the engine models of
# the stdlib functions the repository applies to them (struct, BytesIO, join).
import re
from .sym import SymInt, SymBool, EngineError, lift, land, mkbool, mk

class SBytes:
    _sym = True
    __slots__ = ('items',)
    def __init__(self, items):
        self.items = tuple(items)
    def __len__(self): return len(self.items)
    def __iter__(self): return iter(self.items)
    def __repr__(self): return 'SBytes(%d)' % len(self.items)
    def __hash__(self): return id(self)
    def __bool__(self): return len(self.items) != 0
    def __getitem__(self, i):
        if isinstance(i, slice): return from_items(self.items[i])
        return self.items[i]
    def __add__(self, o):
        if isinstance(o, SBytesT): return SBytesT(self.items + o.items, o.tail)
        if isinstance(o, (bytes, bytearray)): return from_items(self.items + tuple(o))
        if isinstance(o, SBytes): return from_items(self.items + o.items)
        return NotImplemented
    def __radd__(self, o):
        if isinstance(o, (bytes, bytearray)): return from_items(tuple(o) + self.items)
        return NotImplemented
    def __mul__(self, n):
        if not isinstance(n, int): return NotImplemented
        return from_items(self.items * n)
    __rmul__ = __mul__
    def __eq__(self, o):
        if isinstance(o, (bytes, bytearray)): o = tuple(o)
        elif isinstance(o, SBytes): o = o.items
        else: return False
        if len(o) != len(self.items): return False
        return land(*[(a == b) for a, b in zip(self.items, o)])
    def __ne__(self, o):
        from .sym import lnot
        return lnot(self.__eq__(o))
    def ljust(self, n, fill=b' '):
        if len(self.items) >= n: return self
        return from_items(self.items + tuple(fill) * (n - len(self.items)))
    def rstrip(self, *a): raise EngineError('rstrip of symbolic bytes')
    def hex(self): raise EngineError('hex of symbolic bytes')

class SByteArr(SBytes):
    """bytearray(<symbolic data>): read-only model (concatenation, slicing, iteration, comparison); any in-place change is
    refused, so code that mutates it is reported as undecided rather than mis-modelled"""
    __slots__ = ()
    def _ro(self, *a, **k): raise EngineError('in-place change of a bytearray with symbolic content')
    __setitem__ = __delitem__ = __iadd__ = __imul__ = append = extend = insert = pop = remove = reverse = clear = _ro
    def __hash__(self): return id(self)

class SBytesT(SBytes):
    """known leading bytes followed by an ABSTRACT tail: a message of arbitrary length and content, identified by a
    symbolic token.  It can be prefixed and passed on; every operation that would look inside it (length, iteration,
    indexing, comparison) is refused, so code that is accepted with it treats the message parametrically."""
    __slots__ = ('tail',)
    def __init__(self, items, tail):
        self.items = tuple(items); self.tail = tail
    def _no(self, what): raise EngineError('%s of a message of arbitrary length' % what)
    def __len__(self): self._no('len')
    def __iter__(self): self._no('iteration')
    def __bool__(self): self._no('truth value')
    def __repr__(self): return 'SBytesT(%d+tail)' % len(self.items)
    def __hash__(self): return id(self)
    def __getitem__(self, i): self._no('indexing')
    def __add__(self, o): self._no('appending to the end')
    def __radd__(self, o):
        if isinstance(o, SBytesT): self._no('concatenation of two abstract messages')
        if isinstance(o, (bytes, bytearray)): return SBytesT(tuple(o) + self.items, self.tail)
        if isinstance(o, SBytes): return SBytesT(o.items + self.items, self.tail)
        return NotImplemented
    def __mul__(self, n): self._no('repetition')
    __rmul__ = __mul__
    def __eq__(self, o): self._no('comparison')
    def __ne__(self, o): self._no('comparison')
    def ljust(self, *a): self._no('ljust')

def from_items(items):
    items = tuple(items)
    out = []
    sym = False
    for x in items:
        if isinstance(x, SymInt):
            if x.lo < 0 or x.hi > 255: raise EngineError('byte value possibly out of range(256)')
            sym = True
        elif isinstance(x, bool): x = int(x)
        elif isinstance(x, int):
            if not 0 <= x <= 255: raise ValueError('bytes must be in range(0, 256)')
        else:
            raise TypeError('cannot build bytes from %s' % type(x).__name__)
        out.append(x)
    if not sym: return bytes(out)
    return SBytes(out)

def items_of(b):
    return b.items if isinstance(b, SBytes) else tuple(b)

def join(sep, parts):
    out = []
    for k, p in enumerate(parts):
        if k and len(sep): out.extend(sep)
        if not isinstance(p, (bytes, bytearray, SBytes)): raise TypeError('sequence item %d: expected a bytes-like object' % k)
        out.extend(items_of(p))
    return from_items(out)

class SBytesIO:
    def __init__(self, b): self.b = b; self.pos = 0
    def read(self, n=-1):
        if n is None or n < 0: n = len(self.b) - self.pos
        r = self.b[self.pos:self.pos + n]
        self.pos = min(len(self.b), self.pos + n)
        return r
    def close(self): pass

_FMT = re.compile(r'^([<>=@!]?)(\d*)([QLIHB])$')
_SZ = {'Q': 8, 'L': 4, 'I': 4, 'H': 2, 'B': 1}

def _parse(fmt):
    if isinstance(fmt, bytes): fmt = fmt.decode()
    m = _FMT.match(fmt)
    if not m: raise EngineError('struct format %r not modelled' % fmt)
    e, n, c = m.groups()
    n = int(n) if n else 1
    big = e in ('>', '!')          # native order on this platform is little-endian
    if e in ('', '@') and c == 'L': raise EngineError('native-size L not modelled')
    return big, n, _SZ[c]

def struct_unpack(fmt, b):
    big, n, sz = _parse(fmt)
    items = items_of(b)
    if len(items) != n * sz:
        import struct
        raise struct.error('unpack requires a buffer of %d bytes' % (n * sz))
    out = []
    for k in range(n):
        chunk = items[k * sz:(k + 1) * sz]
        if not big: chunk = chunk[::-1]
        v = 0
        for x in chunk: v = (v << 8) | x
        out.append(v)
    return tuple(out)

def struct_pack(fmt, vals):
    big, n, sz = _parse(fmt)
    if len(vals) != n:
        import struct
        raise struct.error('pack expected %d items' % n)
    out = []
    for v in vals:
        lv = lift(v)
        if lv.lo < 0 or lv.hi >= (1 << (8 * sz)): raise EngineError('struct.pack value possibly out of range')
        bs = [(v >> (8 * i)) & 0xff for i in range(sz)]
        if big: bs.reverse()
        out.extend(bs)
    return from_items(out)
