# bin/check driver: collect the obligations of one property, run them in a fork pool,
# replay counterexamples natively, apply the known-findings file, write the evidence.
import os, sys, json, time, hashlib, subprocess, multiprocessing, argparse, re, traceback, fnmatch

VERIF = os.path.dirname(os.path.dirname(os.path.abspath(__file__)))
REPO = os.environ.get('PYVC_REPO', '/repo')
sys.path.insert(0, VERIF)
sys.path.insert(0, REPO)
sys.dont_write_bytecode = True
sys.setrecursionlimit(20000)

NATIVE_PY = '/venv/bin/python'
SPEC_VALIDATED = []

def _work(job):
    prop, k, iid, case, tier, seed = job
    from pyvc import oblig, symctx
    ob = oblig.REG[prop][k]
    try:
        return symctx.run_instance(ob, iid, case, tier, seed)
    except BaseException as e:
        return {'id': iid, 'cls': ob.cls, 'status': 'crash', 'reason': '%s: %s' % (type(e).__name__, e),
                'trace': traceback.format_exc()[-2000:], 'funcs': list(ob.funcs), 'canary': ob.canary, 'bound': ob.bound}

def source_hashes(funcs):
    files = {}
    for f in funcs:
        parts = f.split('.')
        for n in range(len(parts), 1, -1):
            p = os.path.join(REPO, *parts[:n]) + '.py'
            if os.path.exists(p):
                files[os.path.relpath(p, REPO)] = hashlib.sha256(open(p, 'rb').read()).hexdigest()[:16]
                break
    return files

def load_findings(prop):
    out = []
    p = os.path.join(VERIF, 'known_findings.txt')
    if not os.path.exists(p): return out
    for line in open(p):
        line = line.strip()
        if not line.startswith('finding:'): continue
        m = re.match(r'finding:\s+property=(\S+)\s+obligation=(\S+)\s+(.*)$', line)
        if m and m.group(1) == prop:
            out.append({'obligation': m.group(2), 'text': m.group(3)})
    return out

def native_replay(path, search=0):
    env = dict(os.environ, PYTHONPATH=REPO + ':' + VERIF, PYTHONDONTWRITEBYTECODE='1', PYVC_REPO=REPO)
    try:
        p = subprocess.run([NATIVE_PY, '-B', '-m', 'pyvc.replay', path] + (['--search', str(search)] if search else []),
                           cwd=VERIF, env=env, capture_output=True, text=True, timeout=900)
        last = [l for l in p.stdout.strip().split('\n') if l.startswith('{')]
        return json.loads(last[-1]) if last else {'outcome': 'error', 'stderr': p.stderr[-800:]}
    except Exception as e:
        return {'outcome': 'error', 'stderr': str(e)}

def _resolves(dotted):
    import importlib
    parts = dotted.split('.')
    for n in range(len(parts), 0, -1):
        try: o = importlib.import_module('.'.join(parts[:n]))
        except ImportError: continue
        try:
            for p in parts[n:]:
                if isinstance(o, type) and p.startswith('__') and not p.endswith('__'): p = '_%s%s' % (o.__name__.lstrip('_'), p)   # private name
                o = o.__dict__[p] if isinstance(o, type) and p in o.__dict__ else getattr(o, p)
            return True
        except (AttributeError, KeyError):
            return False
    return False

def main(argv=None):
    ap = argparse.ArgumentParser()
    ap.add_argument('prop'); ap.add_argument('tier', nargs='?', default=os.environ.get('VERIF_TIER', 'quick'))
    ap.add_argument('--replay'); ap.add_argument('--only'); ap.add_argument('--jobs', type=int, default=int(os.environ.get('PYVC_JOBS', '16')))
    ap.add_argument('--list', action='store_true'); ap.add_argument('--no-evidence', action='store_true')
    ap.add_argument('-v', action='store_true')
    a = ap.parse_args(argv)
    prop, tier = a.prop, a.tier
    seed = int(os.environ.get('VERIF_SEED', '0'))
    if a.replay:
        r = native_replay(a.replay)
        print(json.dumps(r, indent=1))
        return 1 if r.get('outcome') == 'fails' else 0
    t0 = time.time()
    from pyvc import oblig, symctx, frame       # everything the workers use is loaded before the pool forks
    # the executable specifications are cross-checked against independent oracles before anything is compared with them
    global SPEC_VALIDATED
    try:
        from spec import validate
        SPEC_VALIDATED = validate.run(prop)
    except Exception as e:
        print('CHECKER-BROKEN property=%s: specification does not agree with its independent oracle: %s: %s' % (prop, type(e).__name__, e))
        return 3
    try:
        obs = oblig.load(prop)
    except (ImportError, AttributeError) as e:
        # the obligations name modules / functions of the repository: if one is gone the contracts are out of date (undecided)
        print('UNDECIDED property=%s: the contracts refer to something the repository no longer has (%s: %s)' % (prop, type(e).__name__, e))
        return 2
    jobs = []; gone = []
    for k, ob in enumerate(obs):
        miss = [f for f in ob.funcs if not _resolves(f)]
        if miss:
            gone.append((ob.oid, miss)); continue
        for iid, case in ob.instances(tier):
            if a.only and not re.search(a.only, iid): continue
            jobs.append((prop, k, iid, case, tier, seed))
    if gone and not a.list:
        for oid, miss in gone: print('UNDECIDED obligation=%s function(s) under contract not found in the repository: %s' % (oid, ', '.join(miss)))
    if a.list:
        for j in jobs: print(obs[j[1]].cls, j[2])
        return 0
    if not jobs:
        print('CHECKER-BROKEN property=%s: zero obligations' % prop); return 3
    # longest first (heuristic: declared timeout), fresh process per obligation
    ctx = multiprocessing.get_context('fork')
    results = []
    with ctx.Pool(processes=min(a.jobs, len(jobs)), maxtasksperchild=1) as pool:
        for r in pool.imap_unordered(_work, jobs, chunksize=1):
            results.append(r)
            if a.v or r['status'] not in ('discharged',):
                print('  [%s] %-10s %s %s' % (r.get('cls'), r['status'], r['id'], (r.get('reason') or r.get('label') or '')), flush=True)
    results.sort(key=lambda r: r['id'])
    findings = load_findings(prop)
    os.makedirs(os.path.join(VERIF, 'replays', prop), exist_ok=True)
    violations = []; known = []; undecided = []; broken = []
    canary_ok = None
    for r in results:
        st = r['status']
        if r.get('canary'):
            # a canary is a deliberately false postcondition: it must be refuted and the counterexample must replay
            if st == 'refuted':
                path = write_replay(prop, r)
                rr = native_replay(path)
                ok = rr.get('outcome') == 'fails'
                canary_ok = ok if canary_ok is None else (canary_ok and ok)
                r['canary_replayed'] = ok
                if not ok: broken.append('canary %s refuted but its counterexample does not fail natively' % r['id'])
            else:
                canary_ok = False
                broken.append('canary %s was not refuted (status %s)' % (r['id'], st))
            continue
        if st == 'discharged':
            sc = r.get('selfcheck') or {}
            if 'mismatch' in sc: broken.append('evaluator/native mismatch in %s: %s' % (r['id'], sc['mismatch']))
            continue
        if st == 'refuted':
            path = write_replay(prop, r)
            rr = native_replay(path, search=(200 if (r.get('opaque') or r['cls'] == 'I') else 0))
            r['replay'] = rr
            fnd = [f for f in findings if r['id'] == f['obligation'] or r['id'].startswith(f['obligation'] + '/') or fnmatch.fnmatchcase(r['id'], f['obligation'])]
            if fnd:
                known.append((r, fnd[0])); continue
            if rr.get('outcome') == 'fails':
                violations.append((r, path, ''))
            elif r.get('sufficient'):
                # the obligation asks for more than the property (a sufficient condition): without an input on which the
                # property itself fails this is not a violation -- search natively, otherwise leave it undecided
                rr = native_replay(path, search=300); r['replay'] = rr
                if rr.get('outcome') == 'fails':
                    r['label'] = (rr.get('failures') or [['native failure']])[0][0]
                    violations.append((r, path, ''))
                else:
                    r['reason'] = 'sufficient condition %r not established and no input found on which the property itself fails' % r.get('label')
                    undecided.append(r)
            elif r['cls'] == 'I' and (r.get('evaluator_replay') or {}).get('outcome') == 'holds':
                broken.append('loop-step obligation %s refuted by the solver but its model does not fail when replayed with concrete values through the evaluator' % r['id'])
            elif r.get('opaque') or r['cls'] == 'I' or not r.get('inputs'):
                violations.append((r, path, ' no-failing-input-found'))
            else:
                broken.append('obligation %s refuted by the solver but the model does not fail natively (%s)' % (r['id'], rr.get('outcome')))
        elif st == 'undecided':
            # the solver (or the evaluator) could not decide: try to FALSIFY natively -- the same obligation body on seeded
            # random inputs of the declared ranges, real code, no engine.  A native failure is a violation with its input;
            # no failure leaves the obligation undecided (never a violation).
            path = write_replay(prop, r)
            rr = native_replay(path, search=300)
            r['replay'] = rr
            fnd = [f for f in findings if r['id'] == f['obligation'] or r['id'].startswith(f['obligation'] + '/') or fnmatch.fnmatchcase(r['id'], f['obligation'])]
            if rr.get('outcome') == 'fails' and fnd: known.append((r, fnd[0]))
            elif rr.get('outcome') == 'fails':
                r['label'] = (rr.get('failures') or [['native failure']])[0][0]
                violations.append((r, path, ''))
            else: undecided.append(r)
        elif st == 'vacuous':
            broken.append('vacuous obligation %s: %s' % (r['id'], r.get('reason')))
        else:
            broken.append('worker crash in %s: %s' % (r['id'], r.get('reason')))
    proved = [r for r in results if r['cls'] in ('L', 'I', 'E') and not r.get('canary')]
    bounded = [r for r in results if r['cls'] == 'B' and not r.get('canary')]
    wall = time.time() - t0
    # findings listed but not refuted any more are simply not printed (a fixed defect suppresses nothing)
    for r, f in known:
        print('KNOWN-FINDING: property=%s obligation=%s %s' % (prop, r['id'], f['text']))
    for r, path, sfx in violations:
        print('VIOLATION property=%s replay=%s obligation=%s clause=%s%s' % (prop, path, r['id'], r.get('label'), sfx))
    for r in undecided:
        print('UNDECIDED obligation=%s %s' % (r['id'], r.get('reason')))
    for b in broken:
        print('CHECKER-BROKEN property=%s: %s' % (prop, b))
    if gone: undecided = list(undecided) + [{'id': oid, 'reason': 'function under contract not found'} for oid, _ in gone]
    if not a.no_evidence and not a.only:
        write_evidence(prop, tier, seed, results, proved, bounded, known, violations, undecided, broken, canary_ok, wall, obs)
    nd = sum(1 for r in proved if r['status'] == 'discharged')
    print('property=%s tier=%s obligations(L/I/E)=%d discharged=%d bounded=%d held=%d known=%d violations=%d undecided=%d canary=%s wall=%.1fs' % (
        prop, tier, len(proved), nd, len(bounded), sum(1 for r in bounded if r['status'] == 'discharged'),
        len(known), len(violations), len(undecided), canary_ok, wall))
    if violations: return 1
    if broken: return 3
    if undecided: return 2
    return 0

def write_replay(prop, r):
    name = re.sub(r'[^A-Za-z0-9_.=,-]+', '_', r['id'])[:150]
    path = os.path.join(VERIF, 'replays', prop, name + '.json')
    doc = {'property': prop, 'obligation': r['id'], 'clause': r.get('label'), 'case': r.get('case'), 'inputs': r.get('inputs'),
           'functions': r.get('funcs'), 'sources': source_hashes(r.get('funcs') or []), 'solver': r.get('detail'),
           'verifier_output': {k: r.get(k) for k in ('status', 'label', 'detail', 'trace', 'backend', 'solver_s', 'paths', 'evaluator_replay')}}
    with open(path, 'w') as f: json.dump(doc, f, indent=1, default=str)
    return path

def write_evidence(prop, tier, seed, results, proved, bounded, known, violations, undecided, broken, canary_ok, wall, obs):
    from pyvc import contracts as CT
    funcs = sorted({f for r in results for f in (r.get('funcs') or [])})
    used = sorted({c for r in results for c in (r.get('used_contracts') or [])})
    evaluated = sorted({c for r in results for c in (r.get('evaluated') or [])})
    backends = {}
    for r in results:
        for k, v in (r.get('backend') or {}).items(): backends[k] = backends.get(k, 0) + v
    nd = sum(1 for r in proved if r['status'] == 'discharged')
    kn = {r['id'] for r, f in known}
    samples = []
    for cls in ('L', 'I', 'E', 'B'):
        for r in [x for x in results if x['cls'] == cls][:3]:
            samples.append({'obligation': r['id'], 'class': cls, 'status': r['status'], 'paths': r.get('paths'), 'goals': r.get('goals'),
                            'backend': r.get('backend'), 'solver_s': r.get('solver_s'), 'wall_s': r.get('wall_s')})
    assumed = []
    for c in used:
        assumed.append('callee contract used instead of body: %s (proved by %s)' % (c, CT.proved_by(c) or 'its own obligations'))
    opaque = sorted({o for r in results for o in (r.get('opaque') or [])})
    for o in opaque:
        assumed.append('spec function %s is uninterpreted in caller obligations; its defining contract is a separate obligation' % o)
    nontrivial = sum(1 for r in results if r['status'] == 'discharged' and (r.get('goals') or 0) > 0 and not r.get('canary'))
    # the level of the evidence is the level claimed for this property in MANIFEST.json; a claim of 'proof' needs at
    # least one discharged class L/I/E obligation, otherwise the record is written as 'other'
    level = 'proof' if nd > 0 else 'other'
    try:
        man = json.load(open(os.path.join(VERIF, 'MANIFEST.json')))
        claimed = [c['level_claimed']['category'] for c in man.get('checks', []) if c['property_id'] == prop]
        if claimed and (claimed[0] != 'proof' or nd > 0): level = claimed[0]
    except Exception:
        pass
    ev = {
        'property_id': prop, 'tier': tier, 'seed': seed, 'level': level,
        'coverage': {
            'evaluations': len(results), 'distinct_nontrivial': nontrivial,
            'rule': 'one evaluation = one obligation instance (a contract clause set for one case of sizes) generated from the real source and decided; non-trivial = discharged with at least one generated postcondition; instances are distinct by construction (distinct case parameters)',
            'explanation': 'contract-based verification conditions generated from the real code; classes L/I/E are proved without bound, class B instances are bounded stand-ins (symbolic contents, enumerated sizes) and are never counted in obligations/discharged' + ('' if nd > 0 else '; THIS property currently has only bounded (class B) obligations, hence level other'),
            'obligations': len(proved) - len([r for r in proved if r['id'] in kn]),
            'discharged': nd,
            'checker_cmd': 'bin/check %s %s' % (prop, tier),
            'trusted_base': ['pyvc AST evaluator semantics (differentially checked against CPython on every discharged obligation)',
                             'engine models of builtins/struct/BytesIO for symbolic arguments', 'z3 %s / cvc5' % _z3v(),
                             'executable specifications under /verif/spec (cross-checked against independent oracles by spec-validate)'],
            'by_class': {c: {'total': sum(1 for r in results if r['cls'] == c and not r.get('canary')),
                             'discharged': sum(1 for r in results if r['cls'] == c and not r.get('canary') and r['status'] == 'discharged')} for c in ('L', 'I', 'E', 'B')},
            'bounded': {'count': len(bounded), 'held': sum(1 for r in bounded if r['status'] == 'discharged'),
                        'bounds': sorted({str(r.get('bound')) for r in bounded if r.get('bound')}),
                        'note': 'class B obligations are bounded stand-ins and are NOT counted in obligations/discharged'},
            'known_findings': [{'obligation': r['id'], 'text': f['text']} for r, f in known],
            'proved_names': _proved_names(obs, proved),
            'functions_under_contract': funcs,
            'sources': source_hashes(funcs),
            'functions_evaluated_from_ast': evaluated,
            'backends': backends,
            'solver_s': round(sum(r.get('solver_s') or 0 for r in results), 2),
            'paths': sum(r.get('paths') or 0 for r in results),
            'goals': sum(r.get('goals') or 0 for r in results),
            'canary_refuted_and_replayed': canary_ok,
            'spec_validated_against_independent_oracles': SPEC_VALIDATED,
            'selfcheck_agreements': sum((r.get('selfcheck') or {}).get('agree', 0) for r in results),
            'undecided': [r['id'] for r in undecided],
            'violations': [{'obligation': r['id'], 'clause': r.get('label'), 'replay': p} for r, p, s in violations],
            'checker_broken': broken,
            'samples': samples,
        },
        'assumptions': assumed + ['Python integers are mathematical; symbolic integer widths are derived from exact intervals, never chosen',
                                  'termination is not proved (partial correctness)']
                       + (['class I obligations prove ONE iteration of a loop of the real function from an arbitrary state of its locals; the induction over the number of iterations (the loop rule) that turns them into a statement about every input length is applied on paper, not mechanised'] if any(r['cls'] == 'I' for r in results) else [])
                       + (['abstract messages (arbitrary length and content): code that is accepted with a message object refusing every inspection is parametric in the message; the hash of (known prefix || message) is an uninterpreted function of the prefix bytes and the message token'] if prop in ('C10', 'C13') else [])
                       + (['frame obligations see state reached through self and its sub-objects only; module-level and class-level state is covered by the bounded history enumeration, not by the lemmas; changes of the SHAPE of an attribute (list length, Bits size) are not havocked'] if prop == 'C10' else [])
                       + (['obligations marked as covering the whole range the property states (C16 rings 0..64 and dimensions 0..20; C20 list lengths 0..7) are complete for that stated range only'] if prop in ('C16', 'C20') else []),
        'wall_s': round(wall, 2),
        'violations': len(violations),
    }
    os.makedirs(os.path.join(VERIF, 'evidence'), exist_ok=True)
    with open(os.path.join(VERIF, 'evidence', prop + '.json'), 'w') as f:
        json.dump(ev, f, indent=1, default=str)

def _proved_names(obs, proved):
    """the L/I/E obligations (without their case parameters) with the number of discharged instances of each"""
    out = {}
    for r in proved:
        if r['status'] != 'discharged': continue
        best = ''
        for ob in obs:
            if (r['id'] == ob.oid or r['id'].startswith(ob.oid + '/')) and len(ob.oid) > len(best): best = ob.oid
        k = '%s (%s)' % (best or r['id'], r['cls'])
        out[k] = out.get(k, 0) + 1
    return ['%s x%d' % (k, v) for k, v in sorted(out.items())]

def _z3v():
    try:
        import z3
        return z3.get_version_string()
    except Exception:
        return '?'

if __name__ == '__main__':
    try:
        rc = main()
    except SystemExit:
        raise
    except BaseException as e:
        # an exception of the driver itself is never a verdict about the code
        print('CHECKER-BROKEN: driver exception %s: %s' % (type(e).__name__, e))
        traceback.print_exc()
        rc = 3
    sys.exit(rc)
