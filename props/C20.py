# C20  Permutation and subset-sum helpers enumerate exactly and answer correctly.
# These helpers recurse over in-place rotated lists and DP tables: no contract within reach of the engine expresses
# "every arrangement exactly once" for unbounded length (DESIGN.md section 6).  What is decided here:
#  * permutk / combink never inspect their elements: run on opaque tokens (any operation on a token raises), one run
#    per length is a proof for ALL element values of that length (parametricity) -- lengths 0..7 (class B in length);
#  * nextperm depends on its elements only through comparisons: enumerating every list over {0..n-1}^n covers every
#    order type (with ties) of length n exhaustively (class E per length, n <= 6);
#  * exactsum / dynprog: exhaustive over small instances (class B).
import itertools
from pyvc.oblig import obligation
from pyvc import val
import crysp.utils.perms as perms, crysp.utils.knapsack as knap

P = 'C20'
class Token(object):
    """an element that supports nothing but identity: any inspection by the code under test raises"""
    __slots__ = ('n',)
    def __init__(self, n): self.n = n
    def _no(self, *a): raise TypeError('element inspected')
    __eq__ = __ne__ = __lt__ = __le__ = __gt__ = __ge__ = __add__ = __bool__ = _no
    def __hash__(self): return id(self)

@obligation(P, 'permutk/parametric', cls='E', domain={}, note='the whole range the property quantifies over: every list length 0..7 and every k; the elements are opaque tokens that refuse every inspection, '
            'so one run per length holds for ALL element values incl. repeated ones (parametricity)', cases=lambda tier: [{'n': n} for n in range(0, 8)], funcs=['crysp.utils.perms.permutk'])
def _(c):
    n = c.case('n')
    for k in range(0, n + 1):
        toks = [Token(i) for i in range(n)]
        l = list(toks)
        got = [tuple(t.n for t in p) for p in perms.permutk(l, k)]
        exp = [tuple(range(k)) + p for p in itertools.permutations(range(k, n))]
        c.ensure('k=%d/each-exactly-once' % k, sorted(got) == sorted(exp) and len(set(got)) == len(got))
        c.ensure('k=%d/list-restored' % k, all(a is b for a, b in zip(l, toks)) and len(l) == n)
    o = c.outcome(lambda: list(perms.permutk([1, 2], -1)))
    c.ensure('negative-k-rejected', o[0] == 'exc')

@obligation(P, 'combink/parametric', cls='E', domain={}, note='the whole range the property quantifies over: every list length 1..7 and every p in 1..n (the function states 0 < p <= n as its precondition), opaque tokens (all element values)', cases=lambda tier: [{'n': n} for n in range(1, 8)], funcs=['crysp.utils.perms.combink'])
def _(c):
    n = c.case('n')
    for p in range(1, n + 1):
        toks = [Token(i) for i in range(n)]
        got = [tuple(t.n for t in x) for x in perms.combink(toks, p, 0)]
        c.ensure('p=%d/index-order' % p, got == list(itertools.combinations(range(n), p)))
        got2 = [tuple(t.n for t in x) for x in perms.combink(toks, p, 0)]
        c.ensure('p=%d/repeatable' % p, got2 == got)
    c.ensure('no-static-left', not hasattr(perms.combink, 'r'))

def successor(t):
    """lexicographic successor of a tuple among the distinct arrangements of its multiset, wrapping to the smallest"""
    arr = sorted(set(itertools.permutations(t)))
    return arr[(arr.index(tuple(t)) + 1) % len(arr)]

def successor_fast(t):
    """the textbook next-permutation step (Narayana Pandita), wrapping to the sorted arrangement; cross-checked against
    `successor` (sorted set of all arrangements) for every list of length <= 5 in the obligation below"""
    a = list(t); i = len(a) - 2
    while i >= 0 and a[i] >= a[i + 1]: i -= 1
    if i < 0: return tuple(sorted(a))
    j = len(a) - 1
    while a[j] <= a[i]: j -= 1
    a[i], a[j] = a[j], a[i]
    a[i + 1:] = reversed(a[i + 1:])
    return tuple(a)

class Cmp(object):
    """an element that can only be compared with another element (no arithmetic, no hashing, no truth value)"""
    __slots__ = ('v',)
    def __init__(self, v): self.v = v
    def __eq__(self, o): return self.v == o.v
    def __ne__(self, o): return self.v != o.v
    def __lt__(self, o): return self.v < o.v
    def __le__(self, o): return self.v <= o.v
    def __gt__(self, o): return self.v > o.v
    def __ge__(self, o): return self.v >= o.v
    __hash__ = None
    def __bool__(self): raise TypeError('truth value of an element')

@obligation(P, 'nextperm/order-types', cls='E', cases=lambda tier: [{'n': n} for n in range(0, 8)], domain={},
            funcs=['crysp.utils.perms.nextperm'], note='the whole range the property quantifies over: every ORDER TYPE with ties of every length 0..7 (lists over an initial segment of the naturals using all of its values); '
                 'the elements are comparison-only objects, so the function can depend on nothing but the order type')
def _(c):
    n = c.case('n')
    cnt = 0
    for t in itertools.product(range(n), repeat=n):
        if n and set(t) != set(range(max(t) + 1)): continue
        cnt += 1
        l = [Cmp(v) for v in t]
        r = perms.nextperm(l)
        exp = successor_fast(t)
        if n <= 5: c.ensure('model %s' % (t,), exp == successor(t))
        c.ensure('%s' % (t,), tuple(x.v for x in l) == exp and r is l)
    c.ensure('count', cnt == [1, 1, 3, 13, 75, 541, 4683, 47293][n])          # ordered Bell numbers
    c.ensure('empty', perms.nextperm([]) == [])

def subsets_sum(items, s):
    out = []
    for k in range(len(items) + 1):
        for idx in itertools.combinations(range(len(items)), k):
            if sum(items[i][1] for i in idx) == s: out.append(idx)
    return out
def is_submultiset(sel, items):
    pool = list(items)
    for x in sel:
        if x in pool: pool.remove(x)
        else: return False
    return True

def _instances(tier):
    ws = (1, 2, 3, 5) if tier == 'quick' else (1, 2, 3, 4, 5, 7)
    out = []
    for n in range(0, 4 if tier == 'quick' else 5):
        for w in itertools.product(ws, repeat=n): out.append([('i%d' % k, x) for k, x in enumerate(w)])
    return out

@obligation(P, 'exactsum/exhaustive-small', cls='B', native=True, bound='up to 3 items (quick) / 4 items with weights in a small set, every target 0..sum+1, each call repeated', funcs=['crysp.utils.knapsack.exactsum'], cases={'part': [0, 1, 2, 3]})
def _(c):
    inst = _instances('quick')
    for l in inst[c.case('part')::4]:
        tot = sum(x[1] for x in l)
        for s in range(0, tot + 2):
            sols = subsets_sum(l, s)
            for rep in range(2):
                r = knap.exactsum(list(l), s)
                if sols:
                    c.ensure('exactsum(%s,%d) call %d' % (l, s, rep), isinstance(r, list) and is_submultiset(r, l) and sum(x[1] for x in r) == s)
                else:
                    c.ensure('exactsum(%s,%d) failure' % (l, s), r is False)

def multisets_sum(items, s, cap=None):
    """minimal number of items (WITH repetition) summing to s, or None"""
    best = {0: 0}
    for x in range(1, s + 1):
        c_ = [best[x - w] + 1 for _, w in items if x - w in best]
        if c_: best[x] = min(c_)
    return best.get(s)

@obligation(P, 'dynprog/model-with-repetition', cls='B', native=True, bound='as exactsum', funcs=['crysp.utils.knapsack.dynprog'], cases={'part': [0, 1, 2, 3]},
            note='what the table computes: a minimal-length list of GIVEN items, repetition allowed, with the exact sum; None iff impossible; repeatable')
def _(c):
    inst = _instances('quick')
    for l in inst[c.case('part')::4]:
        tot = sum(x[1] for x in l)
        for s in range(0, tot + 2):
            r = knap.dynprog(list(l), s); r2 = knap.dynprog(list(l), s)
            c.ensure('dynprog(%s,%d) repeatable' % (l, s), r == r2)
            m = multisets_sum(l, s)
            if m is None: c.ensure('dynprog(%s,%d) failure' % (l, s), r is None)
            else: c.ensure('dynprog(%s,%d)' % (l, s), isinstance(r, list) and all(x in l for x in r) and sum(x[1] for x in r) == s and len(r) == m)

@obligation(P, 'dynprog/sub-collection', cls='B', native=True, bound='as exactsum', funcs=['crysp.utils.knapsack.dynprog'], cases={'part': [0, 1, 2, 3]},
            note='the property itself: the answer is a sub-collection (no item used more often than it is given), minimal, and failure exactly when no sub-collection exists')
def _(c):
    inst = _instances('quick')
    for l in inst[c.case('part')::4]:
        tot = sum(x[1] for x in l)
        for s in range(0, tot + 2):
            sols = subsets_sum(l, s)
            r = knap.dynprog(list(l), s)
            if sols:
                c.ensure('dynprog(%s,%d)' % (l, s), isinstance(r, list) and is_submultiset(r, l) and sum(x[1] for x in r) == s and len(r) == min(len(x) for x in sols))
            else:
                c.ensure('dynprog(%s,%d) failure' % (l, s), r is None)

@obligation(P, 'canary/nextperm', cls='E', canary=True, domain={}, funcs=['crysp.utils.perms.nextperm'])
def _(c):
    l = [1, 2, 3]; perms.nextperm(l)
    c.ensure('canary', l == [1, 2, 3])
