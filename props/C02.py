# C02  AES, DES/TDEA, Serpent and Threefish encrypt exactly as standardized.
from pyvc.oblig import obligation
from pyvc import val
from pyvc.val import land, lor, lnot, mask
from spec import aes as A
import crysp.aes as aes
from crysp.poly import Poly
from crysp.bits import Bits
from props.aes_common import *

P = 'C02'

# =====================================================================  AES
@obligation(P, 'crysp.aes.gmul/post', cls='E', funcs=['crysp.aes.gmul'], domain={'a': range(256)},
            note='all 65536 pairs: gmul(a,b) == a*b modulo x^8+x^4+x^3+x+1')
def _(c):
    a = c.int('a', 0, 255)
    for b in range(256):
        c.ensure('gmul(%d,%d)' % (a, b), c.call(aes.gmul, a, b) == A._mulc(a, b))

@obligation(P, 'crysp.aes.Sbox/post', cls='E', funcs=['crysp.aes.Sbox', 'crysp.aes.Sbox_inv'], domain={},
            note='both 256-entry tables against the S-box computed from the field inverse and the affine map; Rcon entries used by the three key sizes')
def _(c):
    st = Poly(list(range(256)), 8)
    c.ensure('sbox', c.call(aes.Sbox, st).ival == A.SBOX)
    c.ensure('sbox_inv', c.call(aes.Sbox_inv, st).ival == A.SBOX_INV)
    c.ensure('ring', aes.AES.sboxtable.size == 8 and aes.AES.sboxinvtable.size == 8 and aes.AES.sboxtable.dim == 256 and aes.AES.sboxinvtable.dim == 256)
    c.ensure('rcon', list(aes.Rcon[1:11]) == A.RCON[1:11])

@obligation(P, 'crysp.aes.Sbox/symbolic', cls='L', funcs=['crysp.aes.Sbox', 'crysp.aes.Sbox_inv'])
def _(c):
    st = sym_state(c)
    r = c.call(aes.Sbox, st); ri = c.call(aes.Sbox_inv, st)
    c.ensure('sbox', land(val.eq(r.ival, [A.sbox(b) for b in st.ival]), r.size == 8))
    c.ensure('sbox_inv', land(val.eq(ri.ival, [A.sbox_inv(b) for b in st.ival]), ri.size == 8))

LAYERS = [('SubBytes', A.sub_bytes), ('InvSubBytes', A.inv_sub_bytes), ('ShiftRows', A.shift_rows), ('InvShiftRows', A.inv_shift_rows),
          ('MixColumns', A.mix_columns), ('InvMixColumns', A.inv_mix_columns)]

@obligation(P, 'crysp.aes.AES.layer/post', cls='L', opaque=AES_OPAQUE, cases={'layer': [n for n, _ in LAYERS]},
            funcs=['crysp.aes.AES.' + n for n, _ in LAYERS])
def _(c):
    name = c.case('layer'); spec = dict(LAYERS)[name]
    install_byte_contracts(c)
    a = aes.AES(bytes(16))
    st = sym_state(c); s0 = list(st.ival)
    c.call(getattr(aes.AES, name), a, st)
    c.ensure('state', val.eq(st.ival, spec(s0)))
    c.ensure('shape', land(len(st.ival) == 16, st.size == 8))

@obligation(P, 'crysp.aes.AES.AddRoundKey/post', cls='L', funcs=['crysp.aes.AES.AddRoundKey'])
def _(c):
    a = aes.AES(bytes(16))
    st = sym_state(c); s0 = list(st.ival)
    w = []
    for i in range(4):
        p = Poly([0] * 4, 8); p.ival = c.words('w%d' % i, 4, 8); w.append(p)
    k = [b for p in w for b in p.ival]
    c.call(aes.AES.AddRoundKey, a, st, w)
    c.ensure('state', val.eq(st.ival, A.add_round_key(s0, k)))
    c.ensure('key-unchanged', val.eq([b for p in w for b in p.ival], k))

@obligation(P, 'crysp.aes.AES.keyschedule/post', cls='L', opaque=AES_OPAQUE, cases={'nk': [4, 6, 8]},
            funcs=['crysp.aes.AES.keyschedule', 'crysp.aes.AES.__init__'])
def _(c):
    nk = c.case('nk')
    install_byte_contracts(c)
    a, key = mk_aes(c, nk)
    c.ensure('params', land(a.Nk == nk, a.Nr == nk + 6, a.Nb == 4))
    w = c.call(aes.AES.keyschedule, a)
    exp = A.key_expansion(list(key))
    c.ensure('count', len(w) == 4 * (nk + 7))
    c.ensure('words', val.eq([list(p.ival) for p in w], exp) if False else land(*[val.eq(list(p.ival), e) for p, e in zip(w, exp)]))
    w2 = c.call(aes.AES.keyschedule, a)
    c.ensure('cached-equal', land(*[val.eq(list(p.ival), e) for p, e in zip(w2, exp)]))

@obligation(P, 'crysp.aes.AES.enc-dec/post', cls='L', opaque=A.LAYER_NAMES, cases={'nk': [4, 6, 8], 'dir': ['enc', 'dec']}, timeout=120,
            funcs=['crysp.aes.AES.enc', 'crysp.aes.AES.dec'])
def _(c):
    # composition over the layer and key-schedule contracts: round order, round-key slices, round count, (de)serialisation
    nk, d = c.case('nk'), c.case('dir')
    install_layer_contracts(c, nk)
    a, key = mk_aes(c, nk)
    blk = c.bytes('B', 16)
    out = c.call(getattr(aes.AES, d), a, blk)
    exp = (A.encrypt if d == 'enc' else A.decrypt)(list(key), list(blk), A.LAYERS_OPAQUE, A.key_expansion_opaque)
    c.ensure('block', val.eq(out, exp))
    c.ensure('length', len(out) == 16)

@obligation(P, 'crysp.aes.AES/rejects', cls='B', bound='key lengths 0..40 bytes, block lengths 0..40 bytes (sizes concrete, contents arbitrary)',
            funcs=['crysp.aes.AES.__init__', 'crysp.aes.AES.enc', 'crysp.aes.AES.dec'], cases={'n': list(range(0, 41))})
def _(c):
    n = c.case('n')
    if n not in (16, 24, 32):
        c.raises('key-size', Exception, aes.AES, c.bytes('K', n))
    if n != 16:
        a = aes.AES(bytes(16))
        blk = c.bytes('B', n)
        c.raises('enc-block-size', Exception, aes.AES.enc, a, blk)
        c.raises('dec-block-size', Exception, aes.AES.dec, a, blk)
    c.ensure('nonvacuous', True)

@obligation(P, 'canary/aes-shiftrows', cls='L', canary=True, funcs=['crysp.aes.AES.ShiftRows'])
def _(c):
    a = aes.AES(bytes(16)); st = sym_state(c); s0 = list(st.ival)
    c.call(aes.AES.ShiftRows, a, st)
    c.ensure('canary', val.eq(st.ival, A.inv_shift_rows(s0)))
