# Salsa20 (Bernstein, "Salsa20 specification"), ChaCha (Bernstein, "ChaCha, a variant of Salsa20": 64-bit nonce,
# 64-bit block counter) and RC4 on plain integers.  Validated in spec/validate.py (Salsa20 spec examples, RFC 6229, eSTREAM).
from pyvc.val import mask, rol, Opaque, le_bytes, from_le, select, ite
M32 = mask(32)

def salsa_qr(y):
    y0, y1, y2, y3 = y
    z1 = y1 ^ rol((y0 + y3) & M32, 7, 32)
    z2 = y2 ^ rol((z1 + y0) & M32, 9, 32)
    z3 = y3 ^ rol((z2 + z1) & M32, 13, 32)
    z0 = y0 ^ rol((z3 + z2) & M32, 18, 32)
    return [z0, z1, z2, z3]
def chacha_qr(y):
    a, b, c, d = y
    a = (a + b) & M32; d = rol(d ^ a, 16, 32)
    c = (c + d) & M32; b = rol(b ^ c, 12, 32)
    a = (a + b) & M32; d = rol(d ^ a, 8, 32)
    c = (c + d) & M32; b = rol(b ^ c, 7, 32)
    return [a, b, c, d]
def _pk(ws): return sum_or([w << (32 * i) for i, w in enumerate(ws)])
def sum_or(xs):
    r = 0
    for x in xs: r = r | x
    return r
def _un(x, n): return [(x >> (32 * i)) & M32 for i in range(n)]
QR = {'salsa': Opaque('salsa_qr', lambda x: _pk(salsa_qr(_un(x, 4))), [128], 128),
      'chacha': Opaque('chacha_qr', lambda x: _pk(chacha_qr(_un(x, 4))), [128], 128)}
def qr(kind, y, opaque): return _un(QR[kind](_pk(y)), 4) if opaque else (salsa_qr if kind == 'salsa' else chacha_qr)(y)

SALSA_ROWS = [(0, 1, 2, 3), (5, 6, 7, 4), (10, 11, 8, 9), (15, 12, 13, 14)]
SALSA_COLS = [(0, 4, 8, 12), (5, 9, 13, 1), (10, 14, 2, 6), (15, 3, 7, 11)]
CHACHA_COLS = [(0, 4, 8, 12), (1, 5, 9, 13), (2, 6, 10, 14), (3, 7, 11, 15)]
CHACHA_DIAG = [(0, 5, 10, 15), (1, 6, 11, 12), (2, 7, 8, 13), (3, 4, 9, 14)]
def _apply(kind, x, groups, opaque):
    x = list(x)
    for g in groups:
        z = qr(kind, [x[i] for i in g], opaque)
        for i, v in zip(g, z): x[i] = v
    return x
def rowround(kind, x, opaque=False): return _apply(kind, x, SALSA_ROWS if kind == 'salsa' else CHACHA_DIAG, opaque)
def columnround(kind, x, opaque=False): return _apply(kind, x, SALSA_COLS if kind == 'salsa' else CHACHA_COLS, opaque)
def doubleround(kind, x, opaque=False): return rowround(kind, columnround(kind, x, opaque), opaque)
def _pk16(ws): return sum_or([w << (32 * i) for i, w in enumerate(ws)])
DR = {k: Opaque(k + '_doubleround', (lambda x, k=k: _pk16(doubleround(k, _un(x, 16)))), [512], 512) for k in ('salsa', 'chacha')}
def core(kind, x, drounds, opaque=False):
    z = list(x)
    for _ in range(drounds):
        z = _un(DR[kind](_pk16(z)), 16) if opaque else doubleround(kind, z)
    return [(a + b) & M32 for a, b in zip(x, z)]
CORE = {(k, n): Opaque('%s_core%d' % (k, n), (lambda x, k=k, n=n: _pk16(core(k, _un(x, 16), n))), [512], 512) for k in ('salsa', 'chacha') for n in range(1, 11)}
NAMES = ['salsa_qr', 'chacha_qr', 'salsa_doubleround', 'chacha_doubleround'] + ['%s_core%d' % (k, n) for k in ('salsa', 'chacha') for n in range(1, 11)]

SIGMA = [from_le(list(b'expa')), from_le(list(b'nd 3')), from_le(list(b'2-by')), from_le(list(b'te k'))]
TAU = [from_le(list(b'expa')), from_le(list(b'nd 1')), from_le(list(b'6-by')), from_le(list(b'te k'))]
def _words(bs): return [from_le(list(bs[4 * i:4 * i + 4])) for i in range(len(bs) // 4)]
def salsa_state(key, nonce, blockno):
    """key: 16 or 32 bytes, nonce: 8 bytes, blockno: integer block counter"""
    k = _words(key); c = SIGMA if len(key) == 32 else TAU
    k0, k1 = k[:4], (k[4:] if len(key) == 32 else k[:4])
    n = _words(nonce)
    return [c[0]] + k0 + [c[1]] + n + [blockno & M32, (blockno >> 32) & M32] + [c[2]] + k1 + [c[3]]
def chacha_state(key, nonce, blockno):
    k = _words(key); c = SIGMA if len(key) == 32 else TAU
    k0, k1 = k[:4], (k[4:] if len(key) == 32 else k[:4])
    return list(c) + k0 + k1 + [blockno & M32, (blockno >> 32) & M32] + _words(nonce)
def block(kind, key, nonce, blockno, drounds, opaque=False):
    st = (salsa_state if kind == 'salsa' else chacha_state)(key, nonce, blockno)
    out = _un(CORE[(kind, drounds)](_pk16(st)), 16) if opaque else core(kind, st, drounds)
    return [b for w in out for b in le_bytes(w, 4)]
def stream_xor(kind, key, nonce, msg, drounds, opaque=False):
    out = []
    for i in range(0, len(msg), 64):
        ks = block(kind, key, nonce, i // 64, drounds, opaque)
        out += [m ^ k for m, k in zip(msg[i:i + 64], ks)]
    return out

# ---- RC4
def _swap(S, i, j):
    """S with entries i and j exchanged (i, j int-likes): written as two successive stores, S[i]=old S[j] then S[j]=old S[i]"""
    si, sj = select(S, i), select(S, j)
    S1 = [ite(i == k, sj, S[k]) for k in range(len(S))]
    return [ite(j == k, si, S1[k]) for k in range(len(S))], si, sj
def rc4_ksa(key):
    S = list(range(256)); j = 0
    for i in range(256):
        j = (j + S[i] + key[i % len(key)]) & 0xff
        S, _, _ = _swap(S, i, j)
    return S
def rc4_step(S, i, j):
    """one PRGA step on a list of 256 int-likes with int-like indices: -> (S', i', j', output byte)"""
    i = (i + 1) & 0xff
    j = (j + select(S, i)) & 0xff
    S2, si, sj = _swap(S, i, j)
    return S2, i, j, select(S2, (select(S2, i) + select(S2, j)) & 0xff)
def rc4(key, n):
    S = rc4_ksa(key); i = j = 0; out = []
    for _ in range(n):
        i = (i + 1) & 0xff; j = (j + S[i]) & 0xff
        S[i], S[j] = S[j], S[i]
        out.append(S[(S[i] + S[j]) & 0xff])
    return out
