# C11  BLAKE and BLAKE2 digests equal their specifications for all inputs, parameters.
from pyvc.oblig import obligation
from pyvc import val
from pyvc.val import land, lor, lnot, mask
from spec import blake as B, sha as S
import crysp.blake as blake, crysp.padding as padding
from crysp.poly import Poly
from crysp.bits import Bits

P = 'C11'
def mkpoly(vals, size):
    p = Poly([0] * len(vals), size); p.ival = list(vals); return p

def fresh_blake(size, salt_words=None):
    h = blake.Blake(size); h.initstate(0)
    return h

@obligation(P, 'Blake.update/one-block=compress', cls='L', cases={'size': [224, 256, 384, 512]}, funcs=['crysp.blake.Blake.update', 'crysp.blake.Blake.iterblocks'], timeout=300,
            note='one iteration of the update loop for arbitrary chaining value, salt, block and bit counter: v initialisation, 14/16 rounds of G with sigma and the pi constants, finalisation with the salt')
def _(c):
    size = c.case('size'); w = 32 if size <= 256 else 64; bs = 16 * w
    h = fresh_blake(size)
    H0 = c.words('H', 8, w); s = c.words('s', 4, w)
    h.H = mkpoly(H0, w); h.salt = mkpoly(s, w)
    cnt = c.int('cnt', 0, (1 << (2 * w)) - 1 - bs)
    h.padmethod.bitcnt = cnt
    blk = c.bytes('M', bs // 8)
    m = [val.from_be(list(blk[i:i + w // 8])) for i in range(0, bs // 8, w // 8)]
    out = c.call(blake.Blake.update, h, blk, padding=False)
    exp = B.blake_compress(w, H0, m, s, cnt + bs)
    c.ensure('state', land(val.eq(list(h.H.ival), exp), h.H.size == w, h.H.dim == 8))
    c.ensure('output', val.eq(out, [b for x in exp for b in val.be_bytes(x, w // 8)][:size // 8]))
    c.ensure('counter', val.eq(h.padmethod.bitcnt, cnt + bs))

@obligation(P, 'Blake.initstate/post', cls='L', cases={'size': [224, 256, 384, 512]}, funcs=['crysp.blake.Blake.initstate', 'crysp.blake.Blake.__init__'])
def _(c):
    size = c.case('size'); w = 32 if size <= 256 else 64
    h = blake.Blake(size)
    salt = c.int('salt', 0, (1 << (4 * w)) - 1)
    c.call(blake.Blake.initstate, h, salt)
    c.ensure('IV', land(val.eq(list(h.H.ival), B.iv(size)), h.H.size == w))
    c.ensure('constants', list(h.c.ival) == (B.C256 if w == 32 else B.C512) and h.rounds == (14 if w == 32 else 16))
    c.ensure('salt', val.eq(list(h.salt.ival), [(salt >> (w * (3 - i))) & mask(w) for i in range(4)]))
    c.ensure('padding', land(h.padmethod.bitcnt == 0, h.padmethod.padflag is False, h.padmethod.blocksize == 16 * w, h.blocksize == 16 * w, h.outlen == size // 8))
    c.raises('bad-size', Exception, blake.Blake, 255)

def _lb_cases(tier):
    return [{'size': s, 'p': p} for s in (224, 256, 384, 512) for p in range(0, (64 if s <= 256 else 128) + 1)]
def _lb_quick(tier):
    out = []
    for s_ in (224, 256, 384, 512):
        bl = 64 if s_ <= 256 else 128; ws = bl // 8
        for p in sorted({0, 1, 2, bl // 2, bl - ws - 2, bl - ws - 1, bl - ws, bl - ws + 1, bl - 1, bl}): out.append({'size': s_, 'p': p})
    return out
def _lastblock_body(c):
    return _lastblock(c)
@obligation(P, 'Blakepadding.lastblock/boundary', cls='B', cases=_lb_quick, tiers=('quick',), bound='tail lengths at the padding-spill boundary and block ends (quick tier); the thorough tier proves every tail length (class L)',
            funcs=['crysp.padding.Blakepadding.lastblock', 'crysp.padding.Blakepadding.__init__'])
def _(c): return _lastblock(c)
@obligation(P, 'Blakepadding.lastblock/post', cls='L', cases=_lb_cases, tiers=('thorough',), funcs=['crysp.padding.Blakepadding.lastblock', 'crysp.padding.Blakepadding.__init__'],
            note='every tail length 0..blocklen x every bit residue; bits-before counter symbolic')
def _(c): return _lastblock(c)
def _lastblock(c):
    size, p = c.case('size'), c.case('p')
    w = 32 if size <= 256 else 64; bs = 16 * w
    for r in range(8):
        if p == 0 and r > 0: continue
        needed = 8 * p - ((8 - r) % 8)
        if needed < 0: continue
        pm = padding.Blakepadding(size)
        cnt = c.int('cnt%d' % r, 0, 1 << 100) * bs
        m = c.bytes('m%d' % r, p)
        total = cnt + needed
        for explicit in ((False, True) if r == 0 else (True,)):
            pm.bitcnt = cnt; pm.padflag = False
            out = c.call(padding.Blakepadding.lastblock, pm, m, **({'bitlen': total} if explicit else {}))
            e = B.pad_tail(list(m), needed, total, size)
            lab = 'r=%d,explicit=%s' % (r, explicit)
            c.ensure(lab + '/bytes', val.eq(out, e))
            c.ensure(lab + '/bitcnt', val.eq(pm.bitcnt, total)); c.ensure(lab + '/padflag', pm.padflag is True)

# ---------------------------------------------------------------- BLAKE2
@obligation(P, 'Blake2.update/one-block=compress', cls='L', cases={'size': [256, 512], 'final': [0, 1]}, funcs=['crysp.blake.Blake2.update', 'crysp.blake.Blake2.iterblocks'], timeout=300,
            note='one iteration for arbitrary chaining value, block and byte counter; finalisation flag exactly on the last block of the final call')
def _(c):
    size, final = c.case('size'), c.case('final'); w = 64 if size == 512 else 32; bl = 16 * w // 8
    h = blake.Blake2(size); h.initstate()
    H0 = c.words('H', 8, w)
    h.H = mkpoly(H0, w)
    cnt = c.int('cnt', 0, (1 << (2 * w - 3)) // bl - 2) * (8 * bl)       # bits hashed before: a whole number of blocks
    h.padmethod.bitcnt = cnt
    blk = c.bytes('M', bl)
    m = [val.from_le(list(blk[i:i + w // 8])) for i in range(0, bl, w // 8)]
    out = c.call(blake.Blake2.update, h, blk, padding=bool(final))
    exp = B.blake2_compress(w, H0, m, (cnt >> 3) + bl, mask(w) if final else 0)
    c.ensure('state', land(val.eq(list(h.H.ival), exp), h.H.size == w))
    c.ensure('output', val.eq(out, [b for x in exp for b in val.le_bytes(x, w // 8)][:size // 8]))

@obligation(P, 'Blake2.initstate/param-block', cls='L', cases={'size': [256, 512]}, funcs=['crysp.blake.Blake2.initstate', 'crysp.blake.Blake2.paramblock', 'crysp.blake.Blake2.treeinit'])
def _(c):
    size = c.case('size'); w = 64 if size == 512 else 32; wb = w // 8
    h = blake.Blake2(size)
    salt = c.bytes('salt', 2 * wb); pers = c.bytes('pers', 2 * wb)
    fan = c.int('fanout', 0, 255); depth = c.int('depth', 0, 255); leafl = c.int('leafl', 0, mask(32))
    noff = c.int('noffset', 0, mask(64 if w == 64 else 48)); ndepth = c.int('ndepth', 0, 255); inner = c.int('inner', 0, wb * 8 // 8 * 1 and (64 if w == 64 else 32))
    for outlen in (1, 20, size // 8):
        c.call(blake.Blake2.initstate, h, salt=salt, pers=pers, keylen=0, outlen=outlen, fanout=fan, depth=depth, leafl=leafl, noffset=noff, ndepth=ndepth, inner=inner)
        Pw = B.blake2_param(w, outlen, 0, fan, depth, leafl, noff, ndepth, inner, list(salt), list(pers))
        IV = S.IV512 if w == 64 else S.IV256
        c.ensure('H outlen=%d' % outlen, land(val.eq(list(h.H.ival), [a ^ b for a, b in zip(IV, Pw)]), h.H.size == w))
        c.ensure('outlen=%d' % outlen, land(h.outlen == outlen, h.rounds == (12 if w == 64 else 10), h.padmethod.bitcnt == 0, h.padmethod.padflag is False))
    c.call(blake.Blake2.initstate, h)
    c.ensure('defaults', land(val.eq(list(h.H.ival), [a ^ b for a, b in zip(S.IV512 if w == 64 else S.IV256, B.blake2_param(w, size // 8))]), h.outlen == size // 8))
    for bad in (0, size // 8 + 1, 65 if w == 64 else 33):
        c.raises('outlen=%d rejected' % bad, Exception, blake.Blake2.initstate, h, outlen=bad)

# ---------------------------------------------------------------- whole digests, bounded in length (compress through its loop-body contract)
def install_blake_loop(c, h, kind):
    from pyvc.errors import EngineError
    w = h.wsize
    cls = blake.Blake2 if kind == 'blake2' else blake.Blake
    qual = 'crysp.blake.%s.update' % cls.__name__
    def handler(I, env):
        s = env.lookup('self'); W = env.lookup('W')
        if len(W) != 16 or any(x.size != w for x in W) or s.H.dim != 8: raise EngineError('loop contract precondition of %s' % qual)
        m = [x.ival for x in W]
        if kind == 'blake':
            Hn = B.COMP[('blake', w)](*list(s.H.ival), *m, *list(s.salt.ival), s.padmethod.bitcnt)
        else:
            Hn = B.COMP[('blake2', w)](*list(s.H.ival), *m, s.bitcnt // 8, s.f.ival[0] & mask(w))
        s.H = mkpoly(list(Hn), w)
    c.loop_contract(qual, 0, handler)

def _lens(tier, bl, ws):
    base = sorted({0, 1, 3, bl - ws - 2, bl - ws - 1, bl - ws, bl - 1, bl, bl + 1, 2 * bl - ws - 1, 2 * bl, 2 * bl + 1})
    return base if tier == 'quick' else sorted(set(base + list(range(0, 3 * bl + 2, 5))))
def _blake_cases(tier):
    out = []
    for size in (224, 256, 384, 512):
        bl = 64 if size <= 256 else 128
        for n in _lens(tier, bl, bl // 8):
            for r in ((0, 1, 7) if n in (1, bl - bl // 8 - 1, bl) or tier != 'quick' else (0,)):
                if n == 0 and r: continue
                out.append({'size': size, 'n': n, 'r': r})
    return out
@obligation(P, 'Blake.__call__/bounded', cls='B', opaque=B.NAMES, bound='message length <= 2 blocks + 1 byte (quick) / 3 blocks (thorough), bit residues {0,1,7} at boundary lengths; contents and salt symbolic', cases=_blake_cases, timeout=200,
            funcs=['crysp.blake.Blake.__call__', 'crysp.blake.Blake.update', 'crysp.padding.blockiterator.iterblocks', 'crysp.padding.Blakepadding.lastblock'])
def _(c):
    size, n, r = c.case('size'), c.case('n'), c.case('r'); w = 32 if size <= 256 else 64
    h = blake.Blake(size)
    install_blake_loop(c, h, 'blake')
    M = c.bytes('M', n); salt = c.int('salt', 0, (1 << (4 * w)) - 1)
    L = 8 * n - ((8 - r) % 8)
    out = c.call(blake.Blake.__call__, h, M, salt, **({'bitlen': L} if r else {}))
    c.ensure('digest', val.eq(out, B.blake(size, list(M), L, salt, True)))
    c.ensure('length', len(out) == size // 8)

def _b2_cases(tier):
    out = []
    for size in (256, 512):
        bl = 64 if size == 256 else 128
        for n in ([0, 1, bl - 1, bl, bl + 1, 2 * bl, 2 * bl + 1, 3 * bl] if tier == 'quick' else range(0, 3 * bl + 2, 3)):
            for outlen in ((size // 8, 20) if tier == 'quick' else (1, 16, 20, size // 8)):
                out.append({'size': size, 'n': n, 'outlen': outlen})
    return out
@obligation(P, 'Blake2.__call__/bounded', cls='B', opaque=B.NAMES, bound='message length <= 3 blocks; digest lengths {20, full} quick; contents, salt and personalization symbolic', cases=_b2_cases, timeout=200,
            funcs=['crysp.blake.Blake2.__call__', 'crysp.blake.Blake2.update', 'crysp.blake.Blake2.iterblocks', 'crysp.padding.Nullpadding.lastblock', 'crysp.padding.blockiterator.iterblocks'])
def _(c):
    size, n, outlen = c.case('size'), c.case('n'), c.case('outlen'); w = 64 if size == 512 else 32; wb = w // 8
    h = blake.Blake2(size)
    install_blake_loop(c, h, 'blake2')
    M = c.bytes('M', n); salt = c.bytes('salt', 2 * wb); pers = c.bytes('pers', 2 * wb)
    out = c.call(blake.Blake2.__call__, h, M, salt=salt, pers=pers, outlen=outlen, fanout=2, depth=3, leafl=7, noffset=9, ndepth=1, inner=5)
    exp = B.blake2(w, list(M), outlen, True, salt=list(salt), pers=list(pers), fanout=2, depth=3, leafl=7, noffset=9, ndepth=1, inner=5)
    c.ensure('digest', val.eq(out, exp)); c.ensure('length', len(out) == outlen)
    out2 = c.call(blake.Blake2.__call__, h, M)          # defaults after a parametrised call (per-call options do not persist)
    c.ensure('defaults', val.eq(out2, B.blake2(w, list(M), size // 8, True)))

@obligation(P, 'canary/blake2-param', cls='L', canary=True, funcs=['crysp.blake.Blake2.initstate'])
def _(c):
    h = blake.Blake2(256)
    fan = c.int('fanout', 0, 255)
    c.call(blake.Blake2.initstate, h, fanout=fan)
    Pw = B.blake2_param(32, 32, 0, fan, 2)
    c.ensure('canary', val.eq(list(h.H.ival), [a ^ b for a, b in zip(S.IV256, Pw)]))
