# Contract substitution: when a callee has a contract that is proved by its own
# obligations, a caller's evaluation may use the contract's postcondition instead of the
# callee's body.  A handler receives (interp, args, kwargs) and returns (result,) or
# NotImplemented (-> evaluate the body).  Every use is recorded in the evidence.
from . import val
from .sym import SymInt, SymBool, EngineError, lift

REG = {}     # name -> (target resolver, handler, proved_by)

def contract(name, target, proved_by):
    """target: callable returning the function object; proved_by: obligation id prefix that proves the contract"""
    def deco(h):
        REG[name] = (target, h, proved_by)
        return h
    return deco

LEAF = ['bits.reverse_byte', 'bits.setitem_bit', 'bits.hw']

def resolve(use, funcs):
    names = list(LEAF) + [u for u in (use or []) if u not in LEAF]
    out = {}
    for n in names:
        if n.startswith('-'): continue
        if use and ('-' + n) in use: continue
        target, h, proved_by = REG[n]
        f = target()
        qn = f.__module__ + '.' + f.__qualname__
        if qn in funcs and not (use and n in use): continue      # never assume the contract being proved
        out[f] = h
    return out

def proved_by(qualname_or_name):
    for n, (t, h, p) in REG.items():
        f = t()
        if f.__qualname__ == qualname_or_name or n == qualname_or_name: return p
    return None

def _bits():
    import crysp.bits as B
    return B

@contract('bits.reverse_byte', lambda: _bits().reverse_byte, 'C07:crysp.bits.reverse_byte/post')
def _reverse_byte(I, args, kw):
    (b,) = args
    if not isinstance(b, SymInt): return NotImplemented
    if b.lo < 0 or b.hi > 255: return NotImplemented       # outside the contract's precondition: evaluate the body
    return (val.rev8(b),)

@contract('bits.setitem_bit', lambda: _bits().Bits.__setitem__, 'C08:crysp.bits.Bits.__setitem__/int')
def _setitem_bit(I, args, kw):
    self, i, v = args
    if not isinstance(i, int) or isinstance(i, bool) or not isinstance(v, SymInt): return NotImplemented
    if v.lo < 0 or v.hi > 1: return NotImplemented
    sz = self.size
    if 0 <= i < sz: p = i
    elif 0 < -i < sz + 1: p = sz + i
    else: raise IndexError
    self.ival = (self.ival & (self.mask ^ (1 << p))) | (v << p)
    return (None,)

@contract('bits.hw', lambda: _bits().Bits.hw, 'C08:crysp.bits.Bits.hw/post')
def _hw(I, args, kw):
    (self,) = args
    if not isinstance(self.ival, SymInt): return NotImplemented
    return (val.popcount(self.ival, self.size),)

def _binop_int(opname, fn, masked):
    def h(I, args, kw):
        self, k = args
        if not isinstance(k, SymInt) or not isinstance(self.size, int) or not isinstance(self.mask, int): return NotImplemented
        if k.lo < 0 or k.hi > self.mask: return NotImplemented        # contract precondition: the int operand fits the vector
        B = _bits().Bits
        r = B(0, self.size)
        v = fn(self.ival, k)
        r.ival = (v & self.mask) if masked else v
        return (r,)
    return h
import operator as _o
for _n, _f, _m in (('__xor__', _o.xor, False), ('__and__', _o.and_, False), ('__or__', _o.or_, False), ('__add__', _o.add, True), ('__sub__', _o.sub, True)):
    contract('bits.%s_int' % _n, (lambda n=_n: getattr(_bits().Bits, n)), 'C08:crysp.bits.Bits.binop/int')(_binop_int(_n, _f, _m))
    LEAF.append('bits.%s_int' % _n)


class SymBitStr(object):
    """engine model of str(Bits) for a symbolic payload: the 0/1 string whose character i is bit i (contract proved by
    C07 crysp.bits.Bits.str-hex-dots/exhaustive); only the queries the repository makes are modelled"""
    _sym = True
    def __init__(self, ival, size): self.ival = ival; self.size = size
    def __len__(self): return self.size
    def rfind(self, ch):
        if ch != '1': raise EngineError('SymBitStr.rfind(%r) not modelled' % (ch,))
        x = self.ival & ((1 << self.size) - 1)
        return lift(x).bit_length() - 1 if isinstance(x, SymInt) else x.bit_length() - 1
    def __str__(self): raise EngineError('symbolic bit string leaked to native str')
    def replace(self, *a): raise EngineError('SymBitStr.replace not modelled')

@contract('bits.str', lambda: _bits().Bits.__str__, 'C07:crysp.bits.Bits.str-hex-dots/exhaustive')
def _str(I, args, kw):
    (self,) = args
    if not isinstance(self.ival, SymInt) or not isinstance(self.size, int): return NotImplemented
    return (SymBitStr(self.ival, self.size),)
LEAF.append('bits.str')
