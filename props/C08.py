# C08  Bits: operators are fixed-width modular algebra touching only addressed bits.
# Postconditions are taken from the property statement: a (value,size) model of bit vectors.
# Values are symbolic over their whole range; sizes are concrete and enumerated (class B in
# width, complete in values) -- see DESIGN.md section 5 / 6.
import itertools
from pyvc.oblig import obligation
from pyvc import val
from pyvc.val import land, lor, lnot, ite, mask, implies
from crysp.bits import Bits
from crysp.utils import operators as OPS

P = 'C08'
SMALL = list(range(0, 9))
WORDS = [15, 16, 17, 31, 32, 33, 63, 64, 65, 128]
def sizes(tier): return SMALL + WORDS if tier == 'quick' else list(range(0, 18)) + [31, 32, 33, 63, 64, 65, 127, 128, 129, 256, 1024, 2048]
def msizes(tier): return [{'m': m} for m in sizes(tier)]
def nsizes(c, cap=None):
    t = SMALL + WORDS
    return t

def snap(b): return (b.ival, b.size, b.mask)
def unchanged(c, label, b, s):
    c.ensure(label + '/operand-unchanged', land(val.eq(b.ival, s[0]), b.size == s[1], b.mask == s[2]))
def wf(c, label, r, size):
    """result has the modelled size, a consistent mask and a payload within its size"""
    c.ensure(label + '/size', r.size == size)
    c.ensure(label + '/mask', r.mask == mask(size))
    c.ensure(label + '/payload', land(r.ival >= 0, r.ival <= mask(size)))

BIN = {
    'add': ('+', lambda x, y, w: (x + y) & mask(w)),
    'sub': ('-', lambda x, y, w: (x - y) & mask(w)),
    'and': ('&', lambda x, y, w: x & y),
    'or':  ('|', lambda x, y, w: x | y),
    'xor': ('^', lambda x, y, w: x ^ y),
}

@obligation(P, 'crysp.bits.Bits.binop/bits', cls='B', bound='operand sizes in the listed size set (<=128 quick, <=2048 thorough); values complete',
            funcs=['crysp.bits.Bits.__add__', 'crysp.bits.Bits.__sub__', 'crysp.bits.Bits.__and__', 'crysp.bits.Bits.__or__', 'crysp.bits.Bits.__xor__'],
            cases=lambda tier: [{'op': o, 'm': m} for o in BIN for m in sizes(tier)])
def _(c):
    op, m = c.case('op'), c.case('m')
    f, model = BIN[op]
    for n in nsizes(c):
        a = c.bits('a%d' % n, m); b = c.bits('b%d' % n, n)
        sa, sb = snap(a), snap(b)
        r = c.binop(f, a, b)
        w = max(m, n)
        lab = '%s(%d,%d)' % (op, m, n)
        wf(c, lab, r, w)
        c.ensure(lab + '/value', val.eq(r.ival, model(sa[0], sb[0], w)))
        unchanged(c, lab + '/a', a, sa); unchanged(c, lab + '/b', b, sb)
        c.ensure(lab + '/fresh', land(r is not a, r is not b))

@obligation(P, 'crysp.bits.Bits.binop/int', cls='B', bound='vector sizes in the listed set; int operand of bit length 0..9 and 33; values complete',
            funcs=['crysp.bits.Bits.__add__', 'crysp.bits.Bits.__sub__', 'crysp.bits.Bits.__and__', 'crysp.bits.Bits.__or__', 'crysp.bits.Bits.__xor__',
                   'crysp.bits.Bits.__radd__', 'crysp.bits.Bits.__rsub__', 'crysp.bits.Bits.__rand__', 'crysp.bits.Bits.__ror__', 'crysp.bits.Bits.__rxor__'],
            cases=lambda tier: [{'op': o, 'm': m} for o in BIN for m in sizes(tier)])
def _(c):
    # a non-negative int operand k behaves as the vector (k, k.bit_length()); on the left of '-' it is taken at the
    # vector's size, so the obligation is stated for ints that fit (both readings of the statement agree there)
    op, m = c.case('op'), c.case('m')
    f, model = BIN[op]
    for kb in list(range(0, 10)) + [33]:
        a = c.bits('a%d' % kb, m)
        k = c.int('k%d' % kb, (1 << (kb - 1)) if kb else 0, mask(kb))     # exactly kb significant bits
        sa = snap(a)
        r = c.binop(f, a, k)
        w = max(m, kb)
        lab = '%s(%d,int%d)' % (op, m, kb)
        wf(c, lab, r, w)
        c.ensure(lab + '/value', val.eq(r.ival, model(sa[0], k, w)))
        unchanged(c, lab + '/a', a, sa)
        if kb <= m:
            r2 = c.binop(f, k, a)
            wf(c, lab + '/reflected', r2, m)
            c.ensure(lab + '/reflected/value', val.eq(r2.ival, model(k, sa[0], m)))
            unchanged(c, lab + '/reflected/a', a, sa)

@obligation(P, 'crysp.bits.Bits.unary', cls='B', bound='sizes in the listed set; values complete',
            funcs=['crysp.bits.Bits.__neg__', 'crysp.bits.Bits.__invert__', 'crysp.bits.Bits.__lshift__', 'crysp.bits.Bits.__rshift__', 'crysp.bits.Bits.__mul__'],
            cases=msizes)
def _(c):
    m = c.case('m')
    a = c.bits('a', m); sa = snap(a)
    r = c.unop('-', a)
    wf(c, 'neg', r, m); c.ensure('neg/value', val.eq(r.ival, (-sa[0]) & mask(m)))
    s = c.binop('+', a, r)
    c.ensure('neg/additive-inverse', val.eq(s.ival, 0)); wf(c, 'neg/sum', s, m)
    r = c.unop('~', a)
    wf(c, 'invert', r, m); c.ensure('invert/value', val.eq(r.ival, sa[0] ^ mask(m)))
    for i in sorted(set([0, 1, 2, 3, m - 1, m, m + 1, 2 * m + 3]) & set(range(0, 5000))):
        r = c.binop('<<', a, i)
        wf(c, 'lshift%d' % i, r, m); c.ensure('lshift%d/value' % i, val.eq(r.ival, (sa[0] << i) & mask(m)))
        r = c.binop('>>', a, i)
        wf(c, 'rshift%d' % i, r, m); c.ensure('rshift%d/value' % i, val.eq(r.ival, sa[0] >> i))
    for n in sorted({0, 1, 3, 8, m}):
        if n > 64 and m > 64: continue
        b = c.bits('b%d' % n, n); sb = snap(b)
        r = c.binop('*', a, b)
        wf(c, 'mul%d' % n, r, m); c.ensure('mul%d/value' % n, val.eq(r.ival, (sa[0] * sb[0]) & mask(m)))
        unchanged(c, 'mul%d/b' % n, b, sb)
    k = c.int('k', 0, 255)
    r = c.binop('*', a, k)
    wf(c, 'mulint', r, m); c.ensure('mulint/value', val.eq(r.ival, (sa[0] * k) & mask(m)))
    unchanged(c, 'unary/a', a, sa)

@obligation(P, 'crysp.utils.operators.rol-ror', cls='B', bound='widths 1..17 and word sizes (quick), every amount 0..width; values complete',
            funcs=['crysp.utils.operators.rol', 'crysp.utils.operators.ror'],
            cases=lambda tier: [{'m': m} for m in sizes(tier) if 0 < m <= 129])
def _(c):
    m = c.case('m')
    a = c.bits('a', m); sa = snap(a)
    ks = range(0, m + 1) if m <= 33 else sorted({0, 1, 2, 7, 13, 31, 32, 33, m // 2, m - 1, m})
    for k in ks:
        r = c.call(OPS.rol, a, k)
        wf(c, 'rol%d' % k, r, m); c.ensure('rol%d/value' % k, val.eq(r.ival, val.rol(sa[0], k, m)))
        q = c.call(OPS.ror, a, k)
        wf(c, 'ror%d' % k, q, m); c.ensure('ror%d/value' % k, val.eq(q.ival, val.ror(sa[0], k, m)))
        back = c.call(OPS.rol, q, k)
        c.ensure('rol(ror)%d' % k, val.eq(back.ival, sa[0]))
        back = c.call(OPS.ror, r, k)
        c.ensure('ror(rol)%d' % k, val.eq(back.ival, sa[0]))
    unchanged(c, 'rot/a', a, sa)

@obligation(P, 'crysp.bits.Bits.__floordiv__+split', cls='B', bound='sizes in the listed set; values complete',
            funcs=['crysp.bits.Bits.__floordiv__', 'crysp.bits.Bits.split', 'crysp.utils.operators.concat'],
            cases=msizes)
def _(c):
    m = c.case('m')
    for n in SMALL + [32, 64]:
        a = c.bits('a%d' % n, m); b = c.bits('b%d' % n, n); sa, sb = snap(a), snap(b)
        r = c.binop('//', a, b)
        lab = 'concat(%d,%d)' % (m, n)
        wf(c, lab, r, m + n)
        c.ensure(lab + '/value', val.eq(r.ival, sa[0] | (sb[0] << m)))
        unchanged(c, lab + '/a', a, sa); unchanged(c, lab + '/b', b, sb)
        if m > 0:
            parts = c.call(Bits.split, r, m)
            c.ensure(lab + '/split-count', len(parts) == -(-(m + n) // m))
            c.ensure(lab + '/split[0]', land(val.eq(parts[0].ival, sa[0]), parts[0].size == m))
            if n > 0 and n <= m:
                c.ensure(lab + '/split[1]', land(val.eq(parts[1].ival, sb[0]), parts[1].size == n))
            rec = c.call(OPS.concat, list(parts))
            c.ensure(lab + '/split-concat', land(val.eq(rec.ival, r.ival), rec.size == m + n))
    a = c.bits('a', m); sa = snap(a)
    for k in (1, 2, 3, 4, 8, 32):
        parts = c.call(Bits.split, a, k)
        c.ensure('split%d/count' % k, len(parts) == -(-m // k))
        for j, p in enumerate(parts):
            sz = min(k, m - j * k)
            wf(c, 'split%d[%d]' % (k, j), p, sz)
            c.ensure('split%d[%d]/value' % (k, j), val.eq(p.ival, (sa[0] >> (j * k)) & mask(sz)))
        be = c.call(Bits.split, a, k, True)
        c.ensure('split%d/bigend' % k, val.eq([p.ival for p in be], [p.ival for p in reversed(parts)]))
    kk = c.int('k', 0, 255)
    r = c.binop('//', a, kk)       # int operand: its own bit length
    c.ensure('concat-int/value', val.eq(r.ival, sa[0] | (kk << m)))
    unchanged(c, 'split/a', a, sa)

@obligation(P, 'crysp.bits.Bits.extend', cls='B', bound='sizes in the listed set, extension by 0..9 and to word sizes; values complete',
            funcs=['crysp.bits.Bits.zeroextend', 'crysp.bits.Bits.signextend', 'crysp.bits.Bits.extend', 'crysp.bits.Bits.int'],
            cases=lambda tier: [{'m': m, 't': t} for m in sizes(tier) for t in sorted(set([0, 1, m - 1, m, m + 1, m + 2, m + 9, 32, 64, 2 * m + 1]) & set(range(0, 5000)))])
def _(c):
    m = c.case('m')
    for t in [c.case('t')]:
        a = c.bits('z%d' % t, m); alias = a; v0 = a.ival
        r = c.call(Bits.zeroextend, a, t)
        w = max(m, t)
        c.ensure('zeroextend%d/returns-self' % t, r is a)
        wf(c, 'zeroextend%d' % t, r, w); c.ensure('zeroextend%d/value' % t, val.eq(r.ival, v0))
        # history: a mask-consuming operation after the extension still sees a consistent vector
        inv = c.unop('~', r)
        c.ensure('zeroextend%d/then-invert' % t, val.eq(inv.ival, v0 ^ mask(w)))
        if m > 0:
            b = c.bits('s%d' % t, m); v0 = b.ival
            sv = v0 - ((v0 >> (m - 1)) & 1) * (1 << m)
            r = c.call(Bits.signextend, b, t)
            wf(c, 'signextend%d' % t, r, w)
            c.ensure('signextend%d/signed-value' % t, val.eq(c.call(Bits.int, r, -1), sv))
            c.ensure('signextend%d/value' % t, val.eq(r.ival, sv & mask(w)))
            e = c.bits('e%d' % t, m); v0 = e.ival
            r = c.call(Bits.extend, e, True, t)
            c.ensure('extend-signed%d' % t, val.eq(r.ival, (v0 - ((v0 >> (m - 1)) & 1) * (1 << m)) & mask(w)))
            e2 = c.bits('f%d' % t, m); v0 = e2.ival
            r = c.call(Bits.extend, e2, False, t)
            c.ensure('extend-unsigned%d' % t, land(val.eq(r.ival, v0), r.size == w))

def _norm(i, n):
    return i + n if i < 0 else i

@obligation(P, 'crysp.bits.Bits.__getitem__', cls='B', bound='sizes 0..10 (quick 0..6 + 8), every int index, every slice with components in -(n+2)..n+2 or None, index lists of length <=3 with repeats',
            funcs=['crysp.bits.Bits.__getitem__', 'crysp.bits.Bits.bit'],
            cases=lambda tier: [{'m': m} for m in (list(range(0, 7)) + [8] if tier == 'quick' else range(0, 11))])
def _(c):
    m = c.case('m')
    a = c.bits('a', m); sa = snap(a)
    bits = val.bits_of(sa[0], m)
    for i in range(-m - 2, m + 3):
        o = c.outcome(Bits.__getitem__, a, i)
        if -m <= i < m:
            c.ensure('int[%d]/ok' % i, o[0] == 'ok')
            if o[0] == 'ok':
                wf(c, 'int[%d]' % i, o[1], 1); c.ensure('int[%d]/value' % i, val.eq(o[1].ival, bits[_norm(i, m)]))
        else:
            c.ensure('int[%d]/refused' % i, o[0] == 'exc' and isinstance(o[1], Exception))
    rng = [None] + list(range(-m - 2, m + 3))
    steps = [None, 1, 2, 3, -1, -2, m + 1, -(m + 1)]
    for st in rng:
        for sp in rng:
            for sk in steps:
                if sk == 0: continue
                sl = slice(st, sp, sk)
                idx = list(range(m))[sl]
                r = c.call(Bits.__getitem__, a, sl)
                lab = 'slice[%s:%s:%s]' % (st, sp, sk)
                c.ensure(lab + '/size', r.size == len(idx))
                c.ensure(lab + '/value', val.eq(r.ival, val.from_bits([bits[j] for j in idx])))
    for L in itertools.chain.from_iterable(itertools.product(range(m), repeat=k) for k in range(0, 4 if m <= 4 else 3)):
        r = c.call(Bits.__getitem__, a, list(L))
        lab = 'list%s' % (list(L),)
        c.ensure(lab + '/size', r.size == len(L))
        c.ensure(lab + '/value', val.eq(r.ival, val.from_bits([bits[j] for j in L])))
    unchanged(c, 'getitem/a', a, sa)

@obligation(P, 'crysp.bits.Bits.__setitem__/int', cls='B', bound='sizes 0..10 and word sizes; every int index; bit value symbolic',
            funcs=['crysp.bits.Bits.__setitem__'],
            cases=lambda tier: [{'m': m, 'i': i} for m in list(range(0, 11)) + [32, 64, 96, 128] for i in (range(-m - 1, m + 2) if m <= 10 else (-m - 1, -m, -1, 0, 1, m - 1, m))])
def _(c):
    # this is the contract of Bits.__setitem__(int, bit) that callers rely on (pyvc.contracts 'bits.setitem_bit')
    m = c.case('m')
    for i in [c.case('i')]:
        a = c.bits('a%d' % i, m); v0 = a.ival
        v = c.int('v%d' % i, 0, 1)
        o = c.outcome(Bits.__setitem__, a, i, v)
        if -m <= i < m:
            p = _norm(i, m)
            c.ensure('set[%d]/ok' % i, o[0] == 'ok')
            c.ensure('set[%d]/value' % i, val.eq(a.ival, (v0 & ~(1 << p) & mask(m)) | (v << p)))
            c.ensure('set[%d]/size' % i, land(a.size == m, a.mask == mask(m)))
        else:
            c.ensure('set[%d]/refused' % i, o[0] == 'exc' and isinstance(o[1], Exception))
            c.ensure('set[%d]/untouched' % i, val.eq(a.ival, v0))

@obligation(P, 'crysp.bits.Bits.__setitem__/select', cls='B', bound='sizes 0..8 (quick 0..5), every slice with components in -(n+1)..n+1 or None and steps {None,1,2,-1,-2}, index lists of length <=3 without repeats; value = Bits, bit list or fitting int',
            funcs=['crysp.bits.Bits.__setitem__'], use=['bits.setitem_bit'],
            cases=lambda tier: [{'m': m, 'kind': k} for m in (range(0, 6) if tier == 'quick' else range(0, 9)) for k in ('bits', 'list', 'short') if not (k == 'short' and m == 0)])
def _(c):
    m, kind = c.case('m'), c.case('kind')
    rng = [None] + list(range(-m - 1, m + 2))
    n = 0
    sels = [slice(st, sp, sk) for st in rng for sp in rng for sk in (None, 1, 2, -1, -2)]
    sels += [list(L) for k in range(0, 4) for L in itertools.permutations(range(m), k)] if m <= 5 else []
    for sel in sels:
        idx = list(range(m))[sel] if isinstance(sel, slice) else sel
        n += 1
        a = c.bits('a%d' % n, m); v0 = a.ival; alias = a
        k = len(idx)
        vv = c.word('v%d' % n, k) if k else 0
        if kind == 'short':
            # a vector shorter than the selection is zero-extended for the assignment; the operand itself must not change
            if k == 0: continue
            vv = c.word('s%d' % n, k - 1) if k > 1 else 0
            rhs = Bits(0, k - 1); rhs.ival = vv; srhs = snap(rhs)
        elif kind == 'bits':
            rhs = Bits(0, k); rhs.ival = vv; srhs = snap(rhs)
        else:
            rhs = val.bits_of(vv, k)
        lab = 'set[%s]=%s' % (sel if not isinstance(sel, slice) else '%s:%s:%s' % (sel.start, sel.stop, sel.step), kind)
        c.setitem(a, sel, rhs)
        exp = v0
        for j, p in enumerate(idx):
            exp = (exp & ~(1 << p) & mask(m)) | (((vv >> j) & 1) << p)
        c.ensure(lab + '/value', val.eq(a.ival, exp))
        c.ensure(lab + '/size', land(a.size == m, a.mask == mask(m)))
        if kind in ('bits', 'short'): unchanged(c, lab + '/rhs', rhs, srhs)

def _sels(m):
    rng = [None] + list(range(-m - 1, m + 2))
    sels = [slice(st, sp, sk) for st in rng for sp in rng for sk in (None, 1, 2, -1, -2)]
    sels += [list(L) for k in range(0, 4) for L in itertools.permutations(range(m), k)]
    return sels

@obligation(P, 'crysp.bits.Bits.__setitem__/select-int', cls='E', funcs=['crysp.bits.Bits.__setitem__'],
            note='finite domain: every vector value of size m<=4 (quick) x every selection x every int value that fits the selection',
            cases=lambda tier: [{'m': m} for m in (range(0, 5) if tier == 'quick' else range(0, 7))],
            domain=lambda case: {'a': range(1 << case['m'])})
def _(c):
    m = c.case('m'); a0 = c.int('a', 0, mask(m))
    for sel in _sels(m):
        idx = list(range(m))[sel] if isinstance(sel, slice) else sel
        for vv in range(1 << len(idx)):
            a = Bits(a0, m)
            c.setitem(a, sel, vv)
            exp = a0
            for j, p in enumerate(idx):
                exp = (exp & ~(1 << p) & mask(m)) | (((vv >> j) & 1) << p)
            c.ensure('set[%s]=int %d' % (sel, vv), a.ival == exp and a.size == m and a.mask == mask(m))

@obligation(P, 'crysp.bits.Bits.hw-hd-eq', cls='B', bound='sizes in the listed set; values complete',
            funcs=['crysp.bits.Bits.hw', 'crysp.bits.Bits.hd', 'crysp.bits.Bits.__eq__', 'crysp.bits.Bits.__ne__'],
            cases=lambda tier: [{'m': m} for m in sizes(tier) if m <= 129], use=['-bits.hw'])
def _(c):
    # proves the contract 'bits.hw' (popcount) by evaluating the body: 2^m paths, so only up to moderate widths here;
    m = c.case('m')
    if True:
        a = c.bits('a', m); b = c.bits('b', m); sa, sb = snap(a), snap(b)
        c.ensure('hw', val.eq(c.call(Bits.hw, a), val.popcount(sa[0], m)))
        c.ensure('hd', val.eq(c.call(Bits.hd, a, b), val.popcount(sa[0] ^ sb[0], m)))
        unchanged(c, 'hw/a', a, sa); unchanged(c, 'hd/b', b, sb)
    a = c.bits('x', m); b = c.bits('y', m)
    e = c.call(Bits.__eq__, a, b); ne = c.call(Bits.__ne__, a, b)
    c.ensure('eq/iff', land(implies(e, val.eq(a.ival, b.ival)), implies(val.eq(a.ival, b.ival), e)))
    c.ensure('ne/iff', land(implies(ne, lnot(val.eq(a.ival, b.ival))), implies(lnot(val.eq(a.ival, b.ival)), ne)))
    if m > 0:
        o = c.outcome(Bits.hd, a, Bits(0, m + 1))
        c.ensure('hd/size-mismatch-rejected', o[0] == 'exc' and isinstance(o[1], Exception))

@obligation(P, 'crysp.bits.Bits.history', cls='B', bound='sizes 1..8; two-step histories',
            funcs=['crysp.bits.Bits.__setitem__', 'crysp.bits.Bits.size', 'crysp.bits.Bits.zeroextend', 'crysp.bits.Bits.__init__'],
            cases=lambda tier: [{'m': m} for m in range(1, 9)])
def _(c):
    # mutate a copy, then check that the original operand and its value are unaffected, and vice versa
    m = c.case('m')
    a = c.bits('a', m); sa = snap(a)
    cp = c.call(Bits, a)
    c.ensure('copy/equal', land(val.eq(cp.ival, sa[0]), cp.size == m, cp.mask == mask(m)))
    v = c.int('v', 0, 1)
    c.setitem(cp, 0, v)
    unchanged(c, 'copy-setitem/original', a, sa)
    c.call(Bits.zeroextend, cp, m + 3)
    unchanged(c, 'copy-extend/original', a, sa)
    c.setattr(cp, 'size', max(m - 1, 0))
    c.ensure('size-shrink/value', val.eq(cp.ival, ((sa[0] & ~1) | v) & mask(max(m - 1, 0))))
    unchanged(c, 'copy-shrink/original', a, sa)
    r = c.binop('+', a, cp)
    unchanged(c, 'add-after-history/a', a, sa)
    wf(c, 'add-after-history', r, m)

@obligation(P, 'canary/add-off-by-one', cls='L', canary=True, funcs=['crysp.bits.Bits.__add__'])
def _(c):
    a = c.bits('a', 4); b = c.bits('b', 4)
    r = c.binop('+', a, b)
    c.ensure('canary', val.eq(r.ival, (a.ival + b.ival + 1) & 15))
