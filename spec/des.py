# FIPS 46-3 (DES) and SP 800-67 (TDEA) on lists of bits in the standard's numbering
# (list index i holds the standard's bit i+1; bit 1 is the most significant bit of the first byte).
# Tables are transcribed in the standard's 1-based form; validated against NBS SP 500-20 known answers.
from pyvc.val import select, Opaque, from_bits, bits_of

IP_T = [58, 50, 42, 34, 26, 18, 10, 2, 60, 52, 44, 36, 28, 20, 12, 4, 62, 54, 46, 38, 30, 22, 14, 6, 64, 56, 48, 40, 32, 24, 16, 8,
        57, 49, 41, 33, 25, 17, 9, 1, 59, 51, 43, 35, 27, 19, 11, 3, 61, 53, 45, 37, 29, 21, 13, 5, 63, 55, 47, 39, 31, 23, 15, 7]
IPINV_T = [IP_T.index(i) + 1 for i in range(1, 65)]
E_T = [32, 1, 2, 3, 4, 5, 4, 5, 6, 7, 8, 9, 8, 9, 10, 11, 12, 13, 12, 13, 14, 15, 16, 17,
       16, 17, 18, 19, 20, 21, 20, 21, 22, 23, 24, 25, 24, 25, 26, 27, 28, 29, 28, 29, 30, 31, 32, 1]
P_T = [16, 7, 20, 21, 29, 12, 28, 17, 1, 15, 23, 26, 5, 18, 31, 10, 2, 8, 24, 14, 32, 27, 3, 9, 19, 13, 30, 6, 22, 11, 4, 25]
PC1_T = [57, 49, 41, 33, 25, 17, 9, 1, 58, 50, 42, 34, 26, 18, 10, 2, 59, 51, 43, 35, 27, 19, 11, 3, 60, 52, 44, 36,
         63, 55, 47, 39, 31, 23, 15, 7, 62, 54, 46, 38, 30, 22, 14, 6, 61, 53, 45, 37, 29, 21, 13, 5, 28, 20, 12, 4]
PC2_T = [14, 17, 11, 24, 1, 5, 3, 28, 15, 6, 21, 10, 23, 19, 12, 4, 26, 8, 16, 7, 27, 20, 13, 2,
         41, 52, 31, 37, 47, 55, 30, 40, 51, 45, 33, 48, 44, 49, 39, 56, 34, 53, 46, 42, 50, 36, 29, 32]
SHIFTS = [1, 1, 2, 2, 2, 2, 2, 2, 1, 2, 2, 2, 2, 2, 2, 1]
SBOX = [
 [14, 4, 13, 1, 2, 15, 11, 8, 3, 10, 6, 12, 5, 9, 0, 7, 0, 15, 7, 4, 14, 2, 13, 1, 10, 6, 12, 11, 9, 5, 3, 8,
  4, 1, 14, 8, 13, 6, 2, 11, 15, 12, 9, 7, 3, 10, 5, 0, 15, 12, 8, 2, 4, 9, 1, 7, 5, 11, 3, 14, 10, 0, 6, 13],
 [15, 1, 8, 14, 6, 11, 3, 4, 9, 7, 2, 13, 12, 0, 5, 10, 3, 13, 4, 7, 15, 2, 8, 14, 12, 0, 1, 10, 6, 9, 11, 5,
  0, 14, 7, 11, 10, 4, 13, 1, 5, 8, 12, 6, 9, 3, 2, 15, 13, 8, 10, 1, 3, 15, 4, 2, 11, 6, 7, 12, 0, 5, 14, 9],
 [10, 0, 9, 14, 6, 3, 15, 5, 1, 13, 12, 7, 11, 4, 2, 8, 13, 7, 0, 9, 3, 4, 6, 10, 2, 8, 5, 14, 12, 11, 15, 1,
  13, 6, 4, 9, 8, 15, 3, 0, 11, 1, 2, 12, 5, 10, 14, 7, 1, 10, 13, 0, 6, 9, 8, 7, 4, 15, 14, 3, 11, 5, 2, 12],
 [7, 13, 14, 3, 0, 6, 9, 10, 1, 2, 8, 5, 11, 12, 4, 15, 13, 8, 11, 5, 6, 15, 0, 3, 4, 7, 2, 12, 1, 10, 14, 9,
  10, 6, 9, 0, 12, 11, 7, 13, 15, 1, 3, 14, 5, 2, 8, 4, 3, 15, 0, 6, 10, 1, 13, 8, 9, 4, 5, 11, 12, 7, 2, 14],
 [2, 12, 4, 1, 7, 10, 11, 6, 8, 5, 3, 15, 13, 0, 14, 9, 14, 11, 2, 12, 4, 7, 13, 1, 5, 0, 15, 10, 3, 9, 8, 6,
  4, 2, 1, 11, 10, 13, 7, 8, 15, 9, 12, 5, 6, 3, 0, 14, 11, 8, 12, 7, 1, 14, 2, 13, 6, 15, 0, 9, 10, 4, 5, 3],
 [12, 1, 10, 15, 9, 2, 6, 8, 0, 13, 3, 4, 14, 7, 5, 11, 10, 15, 4, 2, 7, 12, 9, 5, 6, 1, 13, 14, 0, 11, 3, 8,
  9, 14, 15, 5, 2, 8, 12, 3, 7, 0, 4, 10, 1, 13, 11, 6, 4, 3, 2, 12, 9, 5, 15, 10, 11, 14, 1, 7, 6, 0, 8, 13],
 [4, 11, 2, 14, 15, 0, 8, 13, 3, 12, 9, 7, 5, 10, 6, 1, 13, 0, 11, 7, 4, 9, 1, 10, 14, 3, 5, 12, 2, 15, 8, 6,
  1, 4, 11, 13, 12, 3, 7, 14, 10, 15, 6, 8, 0, 5, 9, 2, 6, 11, 13, 8, 1, 4, 10, 7, 9, 5, 0, 15, 14, 2, 3, 12],
 [13, 2, 8, 4, 6, 15, 11, 1, 10, 9, 3, 14, 5, 0, 12, 7, 1, 15, 13, 8, 10, 3, 7, 4, 12, 5, 6, 11, 0, 14, 9, 2,
  7, 11, 4, 1, 9, 12, 14, 2, 0, 6, 10, 13, 15, 3, 5, 8, 2, 1, 14, 7, 4, 10, 8, 13, 15, 12, 9, 0, 3, 5, 6, 11],
]

def perm(bits, table): return [bits[i - 1] for i in table]
def ip(b): return perm(b, IP_T)
def ipinv(b): return perm(b, IPINV_T)
def pc1(k): return perm(k, PC1_T)

def round_key(cd, r):
    """cd: the 56 bits after PC-1; r: round 0..15 -> 48 bits"""
    s = sum(SHIFTS[:r + 1]) % 28
    C, D = cd[:28], cd[28:]
    return perm(C[s:] + C[:s] + D[s:] + D[:s], PC2_T)

def sbox_bits(n, six):
    row = six[0] * 2 + six[5]
    col = six[1] * 8 + six[2] * 4 + six[3] * 2 + six[4]
    v = select(SBOX[n], row * 16 + col)
    return [(v >> 3) & 1, (v >> 2) & 1, (v >> 1) & 1, v & 1]

def f_bits(R, K48):
    x = [a ^ b for a, b in zip(perm(R, E_T), K48)]
    out = []
    for n in range(8): out += sbox_bits(n, x[6 * n:6 * n + 6])
    return perm(out, P_T)

# the cipher function with the key schedule folded in, as a function of (R, post-PC1 key, round): opaque in compositions
F = [Opaque('des_F%d' % r, (lambda R, cd, r=r: from_bits(f_bits(bits_of(R, 32), round_key(bits_of(cd, 56), r)))), [32, 56], 32) for r in range(16)]

def _feistel(key_bits, blk_bits, order, opaque=True):
    cd = pc1(key_bits)
    b = ip(blk_bits)
    L, R = b[:32], b[32:]
    for r in order:
        if opaque:
            fo = bits_of(F[r](from_bits(R), from_bits(cd)), 32)
        else:
            fo = f_bits(R, round_key(cd, r))
        L, R = R, [a ^ x for a, x in zip(L, fo)]
    return ipinv(R + L)

def encrypt_bits(key_bits, blk_bits, opaque=True): return _feistel(key_bits, blk_bits, range(16), opaque)
def decrypt_bits(key_bits, blk_bits, opaque=True): return _feistel(key_bits, blk_bits, range(15, -1, -1), opaque)

def bytes_to_bits(bs):
    out = []
    for b in bs: out += [(b >> (7 - i)) & 1 for i in range(8)]
    return out
def bits_to_bytes(bits):
    out = []
    for i in range(0, len(bits), 8):
        v = 0
        for b in bits[i:i + 8]: v = (v << 1) | b
        out.append(v)
    return out

def encrypt(key, blk): return bits_to_bytes(encrypt_bits(bytes_to_bits(key), bytes_to_bits(blk), False))
def decrypt(key, blk): return bits_to_bytes(decrypt_bits(bytes_to_bits(key), bytes_to_bits(blk), False))

# whole DES as an opaque function of (key, block) for the TDEA composition
ENC = Opaque('des_enc', lambda k, b: from_bits(encrypt_bits(bits_of(k, 64), bits_of(b, 64), False)), [64, 64], 64)
DEC = Opaque('des_dec', lambda k, b: from_bits(decrypt_bits(bits_of(k, 64), bits_of(b, 64), False)), [64, 64], 64)

def tdea_encrypt(k1, k2, k3, blk): return encrypt(k3, decrypt(k2, encrypt(k1, blk)))
def tdea_decrypt(k1, k2, k3, blk): return decrypt(k1, encrypt(k2, decrypt(k3, blk)))
