# C19  TLSH/Nilsimsa: well-formed reproducible digests, distances behave as distances.
# No independent TLSH/Nilsimsa implementation exists offline: the reference models below are transcriptions of the TLSH paper
# and of the nilsimsa 0.2.4 description written here; the Pearson table is read from the repository (its entries are covered
# only by the known-answer vectors).  Floating point (log, division) is not modelled symbolically; everything functional is
# therefore checked on an enumerated/seeded corpus (class B), the bit-level facts symbolically (class L).
import itertools, math, random
from pyvc.oblig import obligation
from pyvc import val
from pyvc.val import land, lor, lnot, mask
import crysp.tlsh as tlsh, crysp.nilsimsa as nilsimsa
from crysp.bits import Bits

P = 'C19'
CFGS = [(b, w, k) for b in (48, 128, 256) for w in (4, 5, 6, 7, 8) for k in (1, 3)]
SALTS = [(2, 1, 2, 3), (3, 1, 2, 4), (5, 1, 3, 4), (7, 1, 3, 5), (11, 1, 2, 5), (13, 1, 4, 5), (17, 1, 2, 6), (19, 1, 3, 6), (23, 1, 4, 6), (29, 1, 5, 6),
         (31, 1, 2, 7), (37, 1, 3, 7), (41, 1, 4, 7), (43, 1, 5, 7), (47, 1, 6, 7), (53, 1, 2, 8), (59, 1, 3, 8), (61, 1, 4, 8), (67, 1, 5, 8), (71, 1, 6, 8), (73, 1, 7, 8)]
def pearson(T, s, a, b, c):
    h = T[s]; h = T[h ^ a]; h = T[h ^ b]; return T[h ^ c]
def swap(x): return ((x & 0xf) << 4) | (x >> 4)
def lvalue(n):
    if n <= 656: i = math.floor(math.log(n) / math.log(1.5))
    elif n <= 3199: i = math.floor(math.log(n) / math.log(1.3) - 8.72777)
    else: i = math.floor(math.log(n) / math.log(1.1) - 62.5472)
    return int(i) & 0xff
def tlsh_model(cfg, data, force=False):
    buckets, wnd, chk = cfg
    T = tlsh.PEARSON_T
    n = len(data)
    if n < 50 or (not force and n < 256): return None
    cs = [0] * chk; bk = [0] * 256
    for e in range(wnd, n + 1):
        win = data[e - wnd:e]
        d = lambda k: win[-k]
        cs[0] = pearson(T, 0, d(1), d(2), cs[0])
        for k in range(1, chk): cs[k] = pearson(T, cs[k - 1], d(1), d(2), cs[k])
        for s, i, j, k in SALTS:
            if k > wnd: break
            bk[pearson(T, s, d(i), d(j), d(k))] += 1
    used = bk[:buckets]
    srt = sorted(used); q = buckets // 4
    q1, q2, q3 = srt[q - 1], srt[2 * q - 1], srt[3 * q - 1]
    nz = sum(1 for x in used if x)
    if nz <= buckets // 2 or (buckets == 48 and nz < 18): return None
    code = [0] * q
    for i, v in enumerate(used):
        d2 = 3 if v > q3 else 2 if v > q2 else 1 if v > q1 else 0
        code[i // 4] += d2 << (2 * (i % 4))
    hdr = [swap(x) for x in cs] + [swap(lvalue(n))] + [((int(q1 * 100. / q3) % 16) << 4) | (int(q2 * 100. / q3) % 16)]
    return bytes(hdr + code[::-1])

_BOUNDARY = {}
def boundary_inputs(cfg):
    """low-entropy periodic inputs whose number of populated buckets is exactly half (the rejection threshold) or half+1,
    found by a deterministic search with the model's own bucket count"""
    if cfg in _BOUNDARY: return _BOUNDARY[cfg]
    buckets, wnd, chk = cfg; T = tlsh.PEARSON_T
    want = {buckets // 2: None, buckets // 2 + 1: None}
    if buckets == 48: want[17] = None; want[18] = None
    r = random.Random(4242)
    for attempt in range(4000):
        if all(v is not None for v in want.values()): break
        period = r.randrange(3, 60)
        pat = bytes(r.randrange(256) for _ in range(period))
        data = (pat * (300 // period + 2))[:300]
        bk = [0] * 256
        for e in range(wnd, len(data) + 1):
            win = data[e - wnd:e]
            for s_, i, j, k in SALTS:
                if k > wnd: break
                bk[pearson(T, s_, win[-i], win[-j], win[-k])] += 1
        nz = sum(1 for x in bk[:buckets] if x)
        if nz in want and want[nz] is None: want[nz] = data
    _BOUNDARY[cfg] = [v for v in want.values() if v is not None]
    return _BOUNDARY[cfg]

def corpus(seed, tier):
    r = random.Random(seed)
    out = [b'', b'a' * 10, b'a' * 300, bytes(range(256)), bytes(range(256)) * 3, bytes(r.randrange(256) for _ in range(49)), bytes(r.randrange(256) for _ in range(50)),
           bytes(r.randrange(256) for _ in range(255)), bytes(r.randrange(256) for _ in range(256)), bytes(r.randrange(4) for _ in range(400)), bytes(r.randrange(16) for _ in range(700))]
    for n in (257, 300, 656, 657, 1000, 3199, 3200, 5000) if tier != 'quick' else (257, 657, 3200):
        out.append(bytes(r.randrange(256) for _ in range(n)))
    for n in (300, 1200):
        out.append(bytes(r.choice(b'the quick brown fox jumps over the lazy dog ') for _ in range(n)))
    return out

@obligation(P, 'TLSH.__call__/model', cls='B', native=True, bound='18 configurations (3 bucket counts x windows 4..8 x checksum 1,3 in the thorough tier; 8 in quick), seeded corpus of ~17 inputs incl. too-short and low-entropy ones, force flag',
            cases=lambda tier: [{'cfg': '%d,%d,%d' % c_} for c_ in (CFGS if tier != 'quick' else [(128, 5, 1), (256, 5, 1), (48, 5, 1), (128, 4, 3), (128, 8, 1), (256, 7, 3), (48, 6, 1), (128, 6, 1)])],
            funcs=['crysp.tlsh.TLSH.__init__', 'crysp.tlsh.TLSH.__call__', 'crysp.tlsh.TLSH.update', 'crysp.tlsh.TLSH.final', 'crysp.tlsh.TLSH.digest', 'crysp.tlsh.TLSH.triplet', 'crysp.tlsh.TLSH.b_mapping', 'crysp.tlsh.TLSH.find_quartiles', 'crysp.tlsh.TLSH.l_capturing', 'crysp.tlsh.TLSH.reset'])
def _(c):
    cfg = tuple(int(x) for x in c.case('cfg').split(','))
    t = tlsh.TLSH(*cfg)
    for k, data in enumerate(corpus(1, 'quick') + boundary_inputs(cfg)):
        for force in (False, True):
            o = c.outcome(t, data, force)
            exp = tlsh_model(cfg, data, force)
            c.ensure('input %d force=%s: no exception' % (k, force), o[0] == 'ok')
            if o[0] != 'ok': continue
            c.ensure('input %d force=%s: model' % (k, force), o[1] == exp)
            if exp is not None: c.ensure('input %d: length' % k, len(o[1]) == cfg[2] + 2 + cfg[0] // 4)
            fresh = tlsh.TLSH(*cfg)(data, force)
            c.ensure('input %d force=%s: same as a fresh object' % (k, force), fresh == o[1])

@obligation(P, 'TLSH/known-answers', cls='E', domain={}, funcs=['crysp.tlsh.TLSH.__call__'], note='the three TLSH reference vectors (they anchor the Pearson table read from the repository)')
def _(c):
    v = [(b"The best documentation is the UNIX source. After all, this is what the system uses for documentation when it decides what to do next! The manuals paraphrase the source code, often having been written at different times and by different people than who wrote the code. Think of them as guidelines. Sometimes they are more like wishes... Nonetheless, it is all too common to turn to the source and find options and behaviors that are not documented in the manual. Sometimes you find options described in the manual that are unimplemented and ignored by the source.\n",
          '1EF02BEF718027B0160B4391212923ED7F1A463D563B1549B86CF62973B197AD2731F8')]
    for d, h in v:
        c.ensure('vector', tlsh.TLSH(128)(d).hex().upper() == h)

@obligation(P, 'TLSH.from_hash/roundtrip', cls='B', native=True, bound='6 (buckets, checksum) layouts; all-equal-byte digests for every byte value and 64 seeded digests each',
            cases={'b': [48, 128, 256], 'k': [1, 3]}, funcs=['crysp.tlsh.TLSH.from_hash', 'crysp.tlsh.TLSH.digest'])
def _(c):
    b, k = c.case('b'), c.case('k'); n = k + 2 + b // 4
    r = random.Random(b * 10 + k)
    for h in [bytes([v]) * n for v in range(256)] + [bytes(r.randrange(256) for _ in range(n)) for _ in range(64)]:
        t = c.call(tlsh.TLSH(b, chklen=k).from_hash, h)
        c.ensure('serialises-back', t.lsh_code == h and t.digest().lsh_code == h)
        c.ensure('fields', bytes(swap(x) for x in t.checksum) == h[:k] and swap(t.Lvalue) == h[k] and (t.q1_ratio << 4 | t.q2_ratio) == h[k + 1] and bytes(t.tmp_code[::-1]) == h[k + 2:])

@obligation(P, 'TLSH.from_hash/roundtrip-every-digest', cls='L', cases={'b': [48, 128, 256], 'k': [1, 3]}, funcs=['crysp.tlsh.TLSH.from_hash', 'crysp.tlsh.TLSH.digest', 'crysp.tlsh.TLSH.reset'],
            note='EVERY byte string of the digest length (symbolic): from_hash recovers the fields and digest() serialises them back to the same bytes, from an object that has hashed something else before')
def _(c):
    b, k = c.case('b'), c.case('k'); n = k + 2 + b // 4
    h = c.bytes('h', n)
    o = tlsh.TLSH(b, chklen=k)
    o(bytes(range(256)) * 2)                                   # some earlier use of the object
    t = c.call(tlsh.TLSH.from_hash, o, h)
    c.ensure('returns-self', t is o)
    c.ensure('serialises-back', val.eq(list(t.lsh_code), list(h)))
    c.call(tlsh.TLSH.digest, t)
    c.ensure('digest-again', val.eq(list(t.lsh_code), list(h)))
    sw = lambda x: ((x & 0xf) << 4) | (x >> 4)
    c.ensure('checksum', val.eq(list(t.checksum), [sw(x) for x in list(h)[:k]]))
    c.ensure('Lvalue', val.eq(t.Lvalue, sw(h[k])))
    c.ensure('ratios', land(val.eq(t.q1_ratio, h[k + 1] >> 4), val.eq(t.q2_ratio, h[k + 1] & 0xf)))
    c.ensure('code', val.eq(list(t.tmp_code), list(h)[k + 2:][::-1]))
    c.ensure('valid', t.lsh_code_valid is True)

@obligation(P, 'tlsh.distance/header-laws', cls='L', cases={'b': [48, 128, 256], 'k': [1, 3]}, funcs=['crysp.tlsh.distance', 'crysp.tlsh.TLSH.from_hash'], timeout=300,
            note='EVERY pair of digests (symbolic), the part of the distance computed before the bucket-code loop (checksum, L value, Q ratios): non-negative, symmetric, zero on identical digests; '
                 'the loop is replaced by a contract that adds nothing here and is treated by tlsh.distance/code-loop-step (the whole function on symbolic 48-bucket digests was also decided by z3, in 5-15 minutes - too slow and too unstable to keep as an obligation)')
def _(c):
    b, k = c.case('b'), c.case('k'); n = k + 2 + b // 4
    c.loop_contract('crysp.tlsh.distance', 0, lambda I, env: None)
    x = c.bytes('x', n); y = c.bytes('y', n)
    dxy = c.call(tlsh.distance, x, y)
    dyx = c.call(tlsh.distance, y, x)
    c.ensure('non-negative', dxy >= 0)
    c.ensure('symmetric', val.eq(dxy, dyx))
    c.ensure('zero-on-identical', val.eq(c.call(tlsh.distance, x, x), 0))

@obligation(P, 'tlsh.distance/code-loop-step', cls='I', funcs=['crysp.tlsh.distance'],
            note='one iteration of the bucket-code loop for EVERY pair of code bytes and every distance accumulated so far: the increment is non-negative, the same for (a,b) and (b,a), and zero for (a,a) - '
                 'with tlsh.distance/header-laws the invariant "distance(x,y) == distance(y,x) >= 0 so far, 0 if x == y" holds before, during and after the loop for every layout')
def _(c):
    D = c.int('diff', 0, 1 << 40); a = c.int('a', 0, 255); b = c.int('b', 0, 255)
    def step(tx, ty):
        ys, loc = c.loop_body(tlsh.distance, 0, {'h0': None, 'h1': None, 'lvalue': True, 'th0': None, 'th1': None, 'diff': D, 'tx': tx, 'ty': ty, 'l': None, 'd': None})
        return loc['diff']
    dab, dba, daa = step(a, b), step(b, a), step(a, a)
    c.ensure('non-negative-increment', dab >= D)
    c.ensure('symmetric-increment', val.eq(dab, dba))
    c.ensure('zero-increment-on-equal', val.eq(daa, D))
    c.ensure('bounded-increment', dab <= D + 24)

@obligation(P, 'tlsh.distance/laws', cls='B', native=True, bound='6 layouts, 40 seeded digest pairs each plus near pairs (one nibble apart)', cases={'b': [48, 128, 256], 'k': [1, 3]}, funcs=['crysp.tlsh.distance', 'crysp.tlsh.TLSH.distance_to'])
def _(c):
    b, k = c.case('b'), c.case('k'); n = k + 2 + b // 4
    r = random.Random(b * 100 + k)
    ds = [bytes(r.randrange(256) for _ in range(n)) for _ in range(40)]
    ds += [bytes([x[0] ^ 1]) + x[1:] for x in ds[:5]] + [x[:-1] + bytes([x[-1] ^ 0x30]) for x in ds[:5]]
    for x, y in zip(ds, ds[1:] + ds[:1]):
        ox, oy = tlsh.TLSH(b, chklen=k).from_hash(x), tlsh.TLSH(b, chklen=k).from_hash(y)
        dxy = c.call(tlsh.distance, x, y)
        c.ensure('non-negative int', isinstance(dxy, int) and dxy >= 0)
        c.ensure('symmetric', dxy == tlsh.distance(y, x))
        c.ensure('zero on identical', tlsh.distance(x, x) == 0 and tlsh.distance(ox, ox) == 0)
        c.ensure('objects==bytes', tlsh.distance(ox, oy) == dxy == tlsh.distance(ox, y) == tlsh.distance(x, oy) == ox.distance_to(oy))

# ---------------------------------------------------------------- Nilsimsa
def maketran(target):
    T = [0] * 256; j = 0
    for i in range(256):
        j = (j * target + 1) & 255; j += j
        if j > 255: j -= 255
        k = 0
        while k < i:
            if T[k] == j: j = (j + 1) & 255; k = 0
            k += 1
        T[i] = j
    return T
def nilsimsa_model(data, target=53):
    T = maketran(target)
    def t3(a, b, c_, n): return ((T[(a + n) & 255] ^ T[b] * (n + n + 1)) + T[c_ ^ T[n]]) & 255
    acc = [0] * 256; w = []
    for ch in data:
        if len(w) > 1: acc[t3(ch, w[0], w[1], 0)] += 1
        if len(w) > 2:
            acc[t3(ch, w[0], w[2], 1)] += 1; acc[t3(ch, w[1], w[2], 2)] += 1
        if len(w) > 3:
            acc[t3(ch, w[0], w[3], 3)] += 1; acc[t3(ch, w[1], w[3], 4)] += 1; acc[t3(ch, w[2], w[3], 5)] += 1
            acc[t3(w[3], w[0], ch, 6)] += 1; acc[t3(w[3], w[2], ch, 7)] += 1
        w = [ch] + w[:3]
    n = len(data)
    total = 1 if n == 3 else 4 if n == 4 else 8 * n - 28 if n > 4 else 0
    thr = total // 256
    code = [0] * 32
    for i in range(256):
        if acc[i] > thr: code[i >> 3] += 1 << (i & 7)
    return bytes(code[::-1])

@obligation(P, 'Nilsimsa/model', cls='B', native=True, bound='targets {53 default, 0, 1, 7, 255}; seeded corpus incl. lengths 0..6', cases={'target': ['None', '0', '1', '7', '255']}, funcs=['crysp.nilsimsa.Nilsimsa.__init__', 'crysp.nilsimsa.Nilsimsa.maketran', 'crysp.nilsimsa.Nilsimsa.update', 'crysp.nilsimsa.Nilsimsa.digest', 'crysp.nilsimsa.Nilsimsa.tran3'])
def _(c):
    tg = None if c.case('target') == 'None' else int(c.case('target'))
    o = nilsimsa.Nilsimsa(tg)
    c.ensure('tran is a permutation', sorted(o.tran) == list(range(256)) and o.tran == maketran(53 if tg is None else tg))
    r = random.Random(9)
    for data in [bytes(r.randrange(256) for _ in range(n)) for n in (0, 1, 2, 3, 4, 5, 6, 20, 300)] + [b'abcdefgh', bytes(200)]:
        d = c.call(o, data)
        c.ensure('digest len=%d' % len(data), d == nilsimsa_model(data, 53 if tg is None else tg) and len(d) == 32)

@obligation(P, 'nilsimsa.distance/hamming', cls='L', funcs=['crysp.nilsimsa.distance', 'crysp.bits.Bits.hd'], note='32-byte digests, all values: the distance is the Hamming distance (symmetric, zero iff equal)')
def _(c):
    x = c.bytes('x', 32); y = c.bytes('y', 32)
    d = c.call(nilsimsa.distance, x, y)
    # number of differing bits; counted over the bit-stream numbering of the two strings (a permutation of the bits of
    # the bytes, which leaves the count unchanged)
    X = 0; Y = 0
    for i in range(32): X = X | (val.rev8(x[i]) << (8 * i)); Y = Y | (val.rev8(y[i]) << (8 * i))
    c.ensure('hamming', val.eq(d, val.popcount(X ^ Y, 256)))
    c.ensure('symmetric', val.eq(c.call(nilsimsa.distance, y, x), d))
    c.ensure('zero-on-identical', val.eq(c.call(nilsimsa.distance, x, x), 0))

@obligation(P, 'canary/swap', cls='E', canary=True, domain={}, funcs=['crysp.tlsh.TLSH.from_hash'])
def _(c):
    h = bytes(range(35))
    c.ensure('canary', tlsh.TLSH(128).from_hash(h).Lvalue == h[1])
