# Skein 1.3 (hash, MAC, personalisation, key derivation, tree hashing) over an abstract or concrete Threefish.
# Validated against the Skein 1.3 appendix C vectors (held by the repository's tests) in spec/validate.py.
from pyvc.val import mask, Opaque, from_le, le_bytes
from spec import threefish as TF

TYPES = {'key': 0, 'cfg': 4, 'prs': 8, 'PK': 12, 'kdf': 16, 'non': 20, 'msg': 48, 'out': 63}
def tweak(position=0, level=0, bitpad=0, typ='msg', first=0, final=0):
    return (position & mask(96)) | (level << 112) | (bitpad << 119) | (TYPES[typ] << 120) | (first << 126) | (final << 127)

E = {nw: Opaque('threefish%d_enc' % (64 * nw), (lambda k, t, b, nw=nw: _pk(TF.encrypt_words(_un(k, nw), _un(t, 2), _un(b, nw)))), [64 * nw, 128, 64 * nw], 64 * nw) for nw in (4, 8, 16)}
NAMES = ['threefish256_enc', 'threefish512_enc', 'threefish1024_enc']
def _pk(ws):
    r = 0
    for i, w in enumerate(ws): r = r | (w << (64 * i))
    return r
def _un(x, n): return [(x >> (64 * i)) & mask(64) for i in range(n)]

def ubi(G, M, Ts, bitlen=None):
    """G: list of Nb bytes; M: list of bytes; Ts: starting tweak integer (Position may be non-zero); -> Nb bytes"""
    Nb = len(G); nw = Nb // 8
    M = list(M)
    B = 0
    if bitlen is not None:
        n, r = divmod(bitlen, 8)
        if r:
            M = M[:n] + [(M[n] & (0xff << (8 - r)) & 0xff) | (0x80 >> r)]; B = 1
        else:
            M = M[:n]
    NM = len(M)
    k = max(1, -(-NM // Nb))
    M = M + [0] * (k * Nb - NM)
    H = from_le(G)
    pos0 = Ts & mask(96)
    for i in range(k):
        blk = from_le(M[i * Nb:(i + 1) * Nb])
        T = (Ts & ~mask(96)) | ((pos0 + min(NM, (i + 1) * Nb)) & mask(96))
        if i == 0: T = T | (1 << 126)
        if i == k - 1: T = T | (1 << 127) | (B << 119)
        H = E[nw](H, T, blk) ^ blk
    return le_bytes(H, Nb)

def config(No, Yl=0, Yf=0, Ym=0):
    return list(b'SHA3') + le_bytes(1, 2) + [0, 0] + le_bytes(No, 8) + [Yl, Yf, Ym] + [0] * 13

def output(G, No):
    Nb = len(G); nbytes = -(-No // 8)
    out = []; i = 0
    while len(out) < nbytes:
        out += ubi(G, le_bytes(i, 8), tweak(typ='out')); i += 1
    return out[:nbytes]

def tree(G, M, Nb, Yl, Yf, Ym):
    Nl, Nn = Nb << Yl, Nb << Yf
    if len(M) == 0: M = []
    level = 1
    parts = [M[i:i + Nl] for i in range(0, len(M), Nl)] or [[]]
    M = []
    for i, m in enumerate(parts): M += ubi(G, m, tweak(position=i * Nl, level=1))
    while len(M) > Nb:
        level += 1
        if level == Ym:
            return ubi(G, M, tweak(level=level))
        parts = [M[i:i + Nn] for i in range(0, len(M), Nn)]
        M2 = []
        for i, m in enumerate(parts): M2 += ubi(G, m, tweak(position=i * Nn, level=level))
        M = M2
    return M

def skein(Nb_bits, No, M, bitlen=None, key=None, prs=None, PK=None, kdf=None, nonce=None, Yl=0, Yf=0, Ym=0):
    Nb = Nb_bits // 8
    G = [0] * Nb
    if key: G = ubi(G, key, tweak(typ='key'))
    G = ubi(G, config(No, Yl, Yf, Ym), tweak(typ='cfg'))
    if prs: G = ubi(G, prs, tweak(typ='prs'))
    if PK: G = ubi(G, PK, tweak(typ='PK'))
    if kdf: G = ubi(G, kdf, tweak(typ='kdf'))
    if nonce: G = ubi(G, nonce, tweak(typ='non'))
    if Yl or Yf or Ym: G = tree(G, list(M), Nb, Yl, Yf, Ym)
    else: G = ubi(G, M, tweak(typ='msg'), bitlen)
    return output(G, No)
