#!/bin/sh
# tools/mut.sh <patch.diff | -R commit> <prop> [tier] : apply a change to /repo, run one check, undo the change
p="$1"; prop="$2"; tier="${3:-quick}"
cd /repo || exit 9
if [ "$p" = "-R" ]; then shift; c="$1"; prop="$2"; tier="${3:-quick}"; git show "$c" -- crysp | git apply -R || exit 9
else git apply "$p" || exit 9; fi
find /repo -name __pycache__ -prune -exec rm -rf {} + 2>/dev/null
/verif/bin/check "$prop" "$tier" --no-evidence 2>&1 | grep -E "^(VIOLATION|KNOWN|UNDECIDED|CHECKER|property=)" | cut -c1-260 | head -8
git -C /repo checkout -- . ; find /repo -name __pycache__ -prune -exec rm -rf {} + 2>/dev/null
