# C05  ECB/CBC/CTR/CTS modes follow SP 800-38A and decrypt what they encrypt.
# Parametric in the block cipher: the mode code is evaluated against an ABSTRACT cipher (two mutually inverse uninterpreted
# functions on blocks of bs bytes), so the result holds for every block cipher with that interface -- C02/C03 prove that
# each cipher of the library is such a pair.  Message lengths are enumerated (class B), contents are symbolic.
from pyvc.oblig import obligation
from pyvc import val
from pyvc.val import land, lor, lnot, mask
import crysp.mode as mode, crysp.padding as pad
from props.abstract import AbstractCipher
from props.C09 import spec_pad

P = 'C05'
def xor(a, b): return [x ^ y for x, y in zip(a, b)]
def blocks(bs, data): return [data[i:i + bs] for i in range(0, len(data), bs)]

def spec_ecb(E, bs, padded): return [b for blk in blocks(bs, padded) for b in E.E_(blk)]
def spec_cbc(E, bs, iv, padded):
    out = list(iv); prev = list(iv)
    for blk in blocks(bs, padded):
        prev = E.E_(xor(blk, prev)); out += prev
    return out
def spec_ctr(E, bs, ivbytes, msg):
    h = bs // 2
    nonce, c0 = list(ivbytes[:h]), val.from_be(list(ivbytes[h:]))
    out = []
    for i, blk in enumerate(blocks(bs, list(msg))):
        T = nonce + val.be_bytes((c0 + i) & mask(8 * h), h)
        out += xor(blk, E.E_(T))
    return out

def axioms(c, E):
    c.axiom_inverse(E.E, E.D, 'interface contract of the abstract cipher (instantiated by C03 round trips)')
    c.axiom_inverse(E.D, E.E, 'interface contract of the abstract cipher (instantiated by C03 round trips)')

PADS = {'pkcs7': pad.pkcs7, 'X923': pad.X923, 'bitpadding': pad.bitpadding}
def _lens(bs, tier): return sorted({0, 1, bs - 1, bs, bs + 1, 2 * bs, 2 * bs + 3, 3 * bs}) if tier == 'quick' else list(range(0, 3 * bs + 2))

@obligation(P, 'ECB-CBC/post', cls='B', opaque=['absE_*', 'absD_*'], funcs=['crysp.mode.ECB.enc', 'crysp.mode.ECB.dec', 'crysp.mode.CBC.enc', 'crysp.mode.CBC.dec', 'crysp.mode.Mode.__init__', 'crysp.mode.Mode.iterblocks', 'crysp.mode.Mode.xorstr'],
            cases=lambda tier: [{'m': m, 'bs': bs, 'pad': p, 'n': n} for m in ('ECB', 'CBC') for bs in (8, 16) for p in PADS for n in _lens(bs, tier)], timeout=200,
            bound='abstract cipher with 8- and 16-byte blocks; paddings pkcs7, X9.23, bit padding; message lengths 0..3 blocks (+3); contents, IV symbolic; the cipher is an arbitrary permutation')
def _(c):
    m, bs, pn, n = c.case('m'), c.case('bs'), c.case('pad'), c.case('n')
    E = AbstractCipher(bs); axioms(c, E)
    M = c.bytes('M', n)
    padded, _ = spec_pad(pn, list(M), 8 * n, bs)
    if m == 'ECB':
        o = c.call(mode.ECB, E, PADS[pn]); exp = spec_ecb(E, bs, padded)
    else:
        iv = c.bytes('IV', bs); o = c.call(mode.CBC, E, iv, PADS[pn]); exp = spec_cbc(E, bs, list(iv), padded)
    C = c.call(type(o).enc, o, M)
    c.ensure('ciphertext', val.eq(C, exp))
    o2 = c.call(mode.ECB, E, PADS[pn]) if m == 'ECB' else c.call(mode.CBC, E, iv, PADS[pn])
    back = c.call(type(o2).dec, o2, C)
    c.ensure('dec(enc)', val.eq(back, list(M)))
    C2 = c.call(type(o).enc, o, M)                    # a second message on the same object
    c.ensure('second-enc', val.eq(C2, exp))

@obligation(P, 'CTR/post', cls='B', opaque=['absE_*', 'absD_*'], funcs=['crysp.mode.CTR.enc', 'crysp.mode.CTR.dec', 'crysp.mode.CTR.__init__', 'crysp.mode.DefaultCounter.__init__', 'crysp.mode.DefaultCounter.setup', 'crysp.mode.DefaultCounter.reset', 'crysp.mode.DefaultCounter.__call__'],
            cases=lambda tier: [{'bs': bs, 'n': n} for bs in (8, 16) for n in _lens(bs, tier)], timeout=200,
            bound='abstract cipher with 8- and 16-byte blocks; message lengths 0..3 blocks (+3); contents and the initial counter block symbolic (all counter values incl. wrap-around)')
def _(c):
    bs, n = c.case('bs'), c.case('n')
    E = AbstractCipher(bs); axioms(c, E)
    M = c.bytes('M', n); iv = c.bytes('IV', bs)
    o = c.call(mode.CTR, E, iv)
    C = c.call(mode.CTR.enc, o, M)
    c.ensure('ciphertext', val.eq(C, spec_ctr(E, bs, iv, M)))
    c.ensure('length', len(C) == n)
    back = c.call(mode.CTR.dec, c.call(mode.CTR, E, iv), C)
    c.ensure('dec(enc)', val.eq(back, list(M)))
    c.ensure('second-enc', val.eq(c.call(mode.CTR.enc, o, M), spec_ctr(E, bs, iv, M)))

@obligation(P, 'DefaultCounter/post', cls='L', cases={'bs': [8, 16, 32, 64, 128]}, funcs=['crysp.mode.DefaultCounter.reset', 'crysp.mode.DefaultCounter.__call__', 'crysp.mode.DefaultCounter.setup', 'crysp.bits.unpack', 'crysp.bits.pack'],
            note='block sizes of every cipher of the library (8..128 bytes); arbitrary counter block: nonce half unchanged, counter half big-endian, +1 per call, wrapping within its half')
def _(c):
    bs = c.case('bs'); h = bs // 2
    iv = c.bytes('IV', bs)
    d = c.call(mode.DefaultCounter, bs, iv)
    c.call(mode.DefaultCounter.reset, d)
    c0 = val.from_be(list(iv[h:]))
    for i in range(3):
        blk = c.call(mode.DefaultCounter.__call__, d)
        c.ensure('block%d' % i, val.eq(blk, list(iv[:h]) + val.be_bytes((c0 + i) & mask(8 * h), h)))
    c.call(mode.DefaultCounter.reset, d)
    c.ensure('reset', val.eq(c.call(mode.DefaultCounter.__call__, d), list(iv)))
    d0 = c.call(mode.DefaultCounter, bs); c.call(mode.DefaultCounter.setup, d0); c.call(mode.DefaultCounter.reset, d0)
    c.ensure('default-zero', val.eq(c.call(mode.DefaultCounter.__call__, d0), [0] * bs))

@obligation(P, 'CTS/post', cls='B', opaque=['absE_*', 'absD_*'], funcs=['crysp.mode.CTS_ECB.enc', 'crysp.mode.CTS_ECB.dec', 'crysp.mode.CTS_CBC.enc', 'crysp.mode.CTS_CBC.dec'],
            cases=lambda tier: [{'m': m, 'bs': bs, 'n': n} for m in ('CTS_ECB', 'CTS_CBC') for bs in (8, 16) for n in sorted({bs, bs + 1, 2 * bs - 1, 2 * bs, 2 * bs + 1, 3 * bs - 1, 3 * bs, 3 * bs + 5} if tier == 'quick' else set(range(bs, 4 * bs + 1)))], timeout=200,
            bound='abstract cipher with 8- and 16-byte blocks; message lengths 1..3 blocks (+5), every residue in the thorough tier')
def _(c):
    m, bs, n = c.case('m'), c.case('bs'), c.case('n')
    E = AbstractCipher(bs); axioms(c, E)
    M = c.bytes('M', n)
    if m == 'CTS_ECB':
        o = c.call(mode.CTS_ECB, E); o2 = c.call(mode.CTS_ECB, E); extra = 0
    else:
        iv = c.bytes('IV', bs); o = c.call(mode.CTS_CBC, E, iv); o2 = c.call(mode.CTS_CBC, E, iv); extra = bs
    C = c.call(type(o).enc, o, M)
    c.ensure('length', len(C) == n + extra)
    if extra: c.ensure('iv-prefix', val.eq(C[:bs], list(iv)))
    back = c.call(type(o2).dec, o2, C)
    c.ensure('dec(enc)', val.eq(back, list(M)))
    if n % bs == 0:
        exp = spec_ecb(E, bs, list(M)) if m == 'CTS_ECB' else spec_cbc(E, bs, list(iv), list(M))
        c.ensure('aligned==plain-mode', val.eq(C, exp))
    c.ensure('second-enc', val.eq(c.call(type(o).enc, o, M), C))

@obligation(P, 'modes/library-ciphers', cls='B', native=True, bound='SP 800-38A F.1/F.2/F.5 AES-128 vectors through the library AES, and one run per library cipher (round trip, lengths)', funcs=['crysp.mode.ECB.enc', 'crysp.mode.CBC.enc', 'crysp.mode.CTR.enc'],
            cases={'cipher': ['AES128', 'AES192', 'AES256', 'DES', 'TDEA', 'Serpent', 'Threefish256', 'Threefish512', 'Threefish1024']})
def _(c):
    from crysp.aes import AES
    from crysp.des import DES, TDEA
    from crysp.serpent import Serpent
    from crysp.threefish import Threefish
    name = c.case('cipher')
    mk = {'AES128': lambda: AES(bytes.fromhex('2b7e151628aed2a6abf7158809cf4f3c')), 'AES192': lambda: AES(bytes(range(24))), 'AES256': lambda: AES(bytes(range(32))), 'DES': lambda: DES(bytes(range(8))),
          'TDEA': lambda: TDEA(bytes(range(24))), 'Serpent': lambda: Serpent(bytes(range(16))), 'Threefish256': lambda: Threefish(bytes(range(32)), bytes(16)),
          'Threefish512': lambda: Threefish(bytes(range(64)), bytes(16)), 'Threefish1024': lambda: Threefish(bytes(range(128)), bytes(16))}[name]
    E = mk(); bs = E.blocksize // 8
    if name == 'AES128':
        pt = bytes.fromhex('6bc1bee22e409f96e93d7e117393172aae2d8a571e03ac9c9eb76fac45af8e5130c81c46a35ce411e5fbc1191a0a52eff69f2445df4f9b17ad2b417be66c3710')
        c.ensure('F.1.1 ECB-AES128', mode.ECB(E, pad.nopadding).enc(pt).hex() == '3ad77bb40d7a3660a89ecaf32466ef97f5d3d58503b9699de785895a96fdbaaf43b1cd7f598ece23881b00e3ed0306887b0c785e27e8ad3f8223207104725dd4')
        iv = bytes(range(16))
        c.ensure('F.2.1 CBC-AES128', mode.CBC(E, iv, pad.nopadding).enc(pt).hex() == iv.hex() + '7649abac8119b246cee98e9b12e9197d5086cb9b507219ee95db113a917678b273bed6b8e3c1743b7116e69e222295163ff1caa1681fac09120eca307586e1a7')
        ctr = bytes.fromhex('f0f1f2f3f4f5f6f7f8f9fafbfcfdfeff')
        c.ensure('F.5.1 CTR-AES128', mode.CTR(E, ctr).enc(pt).hex() == '874d6191b620e3261bef6864990db6ce9806f66b7970fdff8617187bb9fffdff5ae4df3edbd5d35e5b4f09020db03eab1e031dda2fbe03d1792170a0f3009cee')
    msg = bytes((3 * i + 1) & 0xff for i in range(2 * bs + 5))
    for mk_mode in (lambda: mode.ECB(mk()), lambda: mode.CBC(mk(), bytes(range(bs))), lambda: mode.CTR(mk(), bytes(bs - 1) + b'\xff'), lambda: mode.CTS_ECB(mk()), lambda: mode.CTS_CBC(mk(), bytes(range(bs)))):
        o = mk_mode(); C = o.enc(msg)
        c.ensure('%s/%s roundtrip' % (name, type(o).__name__), mk_mode().dec(C) == msg)

@obligation(P, 'canary/cbc-chain', cls='L', canary=True, opaque=['absE_*', 'absD_*'], funcs=['crysp.mode.CBC.enc'])
def _(c):
    E = AbstractCipher(8); M = c.bytes('M', 16); iv = c.bytes('IV', 8)
    C = c.call(mode.CBC.enc, c.call(mode.CBC, E, iv, pad.nopadding), M)
    c.ensure('canary', val.eq(C, list(iv) + spec_ecb(E, 8, list(M))))

@obligation(P, 'enc-loops/step', cls='I', opaque=['absE_*', 'absD_*'], cases={'m': ['ECB', 'CBC', 'CTR'], 'bs': [8, 16]}, funcs=['crysp.mode.ECB.enc', 'crysp.mode.CBC.enc', 'crysp.mode.CTR.enc'],
            note='inductive step of the encryption loop from an ARBITRARY state (any number of blocks already produced, any previous ciphertext block / counter value): exactly one block E(b), E(b xor previous), b xor E(counter) is appended')
def _(c):
    m, bs = c.case('m'), c.case('bs')
    E = AbstractCipher(bs)
    b = c.bytes('b', bs); prev = c.bytes('prev', bs)
    earlier = [bytes(bs)] * 2                      # blocks produced so far: their number and contents are irrelevant to the step
    if m == 'ECB':
        o = mode.ECB(E); C = list(earlier)
        ys, loc = c.loop_body(mode.ECB.enc, 0, {'self': o, 'M': None, 'C': C, 'b': b})
        c.ensure('appended', land(len(C) == 3, val.eq(C[-1], E.E_(b)), C[:2] == earlier))
    elif m == 'CBC':
        o = mode.CBC(E, bytes(bs)); C = list(earlier) + [prev]
        ys, loc = c.loop_body(mode.CBC.enc, 0, {'self': o, 'M': None, 'C': C, 'b': b})
        c.ensure('appended', land(len(C) == 4, val.eq(C[-1], E.E_(xor(list(b), list(prev)))), val.eq(C[2], list(prev)), C[:2] == earlier))
    else:
        iv = c.bytes('IV', bs)
        o = c.call(mode.CTR, E, iv); c.call(mode.DefaultCounter.reset, o.counter)
        h = bs // 2
        i = c.int('i', 0, (1 << (8 * h)) - 1)      # the counter has been advanced an arbitrary number of times
        from crysp.bits import Bits
        cnt = Bits(0, 8 * h); cnt.ival = (val.from_be(list(iv[h:])) + i) & mask(8 * h); o.counter.count = cnt
        C = list(earlier)
        ys, loc = c.loop_body(mode.CTR.enc, 0, {'self': o, 'M': None, 'C': C, 'b': b})
        T = list(iv[:h]) + val.be_bytes((val.from_be(list(iv[h:])) + i) & mask(8 * h), h)
        c.ensure('appended', land(len(C) == 3, val.eq(C[-1], xor(list(b), E.E_(T))), C[:2] == earlier))
        c.ensure('counter-advanced', val.eq(o.counter.count.ival, (val.from_be(list(iv[h:])) + i + 1) & mask(8 * h)))

@obligation(P, 'dec-loops/step', cls='I', opaque=['absE_*', 'absD_*'], cases={'m': ['ECB', 'CBC'], 'bs': [8, 16]}, funcs=['crysp.mode.ECB.dec', 'crysp.mode.CBC.dec'],
            note='inductive step of the decryption loop from an ARBITRARY state: ECB appends D(next block read); CBC takes the last block c off the remaining ciphertext and puts D(c) xor (the block before it) in FRONT of the plaintext blocks recovered so far')
def _(c):
    from pyvc.sbytes import from_items
    m, bs = c.case('m'), c.case('bs')
    E = AbstractCipher(bs)
    later = [bytes([7] * bs)] * 2                   # plaintext blocks recovered so far (CBC works backwards): irrelevant to the step
    if m == 'ECB':
        if c.mode == 'sym': from pyvc.sbytes import SBytesIO
        blk = c.bytes('c', bs)
        Pm = SBytesIO(blk) if c.mode == 'sym' else __import__('io').BytesIO(bytes(blk))
        o = mode.ECB(E); M = list(later)
        ys, loc = c.loop_body(mode.ECB.dec, 0, {'self': o, 'C': None, 'n': 5, 'p': 0, 'P': Pm, 'M': M, 'b': 1})
        c.ensure('appended', land(len(M) == 3, val.eq(M[-1], E.D_(blk)), M[:2] == later))
    else:
        prev = c.bytes('prev', bs); cur = c.bytes('c', bs); head = c.bytes('head', bs)
        C = from_items(list(head) + list(prev) + list(cur)) if c.mode == 'sym' else bytes(head) + bytes(prev) + bytes(cur)
        o = mode.CBC(E, bytes(bs)); M = list(later)
        ys, loc = c.loop_body(mode.CBC.dec, 0, {'self': o, 'C': C, 'l': bs, 'n': 3, 'p': 0, 'M': M, 'c': None})
        c.ensure('prepended', land(len(M) == 3, val.eq(M[0], xor(list(prev), E.D_(cur))), M[1:] == later))
        c.ensure('ciphertext-shortened', val.eq(list(loc['C']), list(head) + list(prev)))
