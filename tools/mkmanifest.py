#!/usr/bin/env python3
# regenerate MANIFEST.json from the table below (keeps the file valid at all times)
import json, os
V = os.path.dirname(os.path.dirname(os.path.abspath(__file__)))
TB = ("Trusted: the pyvc AST evaluator's semantics of the Python subset (checked differentially against CPython on every discharged obligation), "
      "engine models of builtins/struct/BytesIO on symbolic arguments, z3 (cvc5 as second opinion for unsat), the executable specifications under /verif/spec "
      "(cross-checked against independent oracles), Python integers as mathematical integers. Termination is not proved.")
CHECKS = {
 'C01': ('proof', "Contracts on the real sha.py/md.py/padding.py code, VCs generated from the AST on every run: component formulas, one-iteration compression == FIPS/RFC compression for all state/block values (10 algorithms), IV and constant tables, last-block padding for every tail length and bit residue with unbounded symbolic counters - all discharged (class L/E). The composition through the block iterator is a bounded stand-in (class B: messages up to 2 blocks, contents symbolic) and is not counted as proved.",
         'sidecar contracts + AST-to-z3 verification conditions; loop-body contract for the compression; bounded composition'),
 'C02': ('proof', "AES: gmul on all 65536 pairs and both S-box tables by complete enumeration (E); every round layer, AddRoundKey and the key schedule (Nk=4,6,8) against FIPS 197 for all states/keys; enc/dec as compositions over those contracts (L). Size rejection for key/block lengths 0..40 (B).",
         'sidecar contracts + AST-to-z3 verification conditions; layer lemmas and composition over opaque layer contracts; exhaustive enumeration of finite tables'),
 'C08': ('proof', "Bits operator contracts taken from the (value,size) model in the property, evaluated on the real bits.py through the AST evaluator with symbolic values of the whole range for each concrete operand size in a stated list (bounded in width: class B), plus exhaustive enumeration (E) of int-valued selection assignment. Complete in values, bounded in width.",
         'sidecar contracts + AST-to-z3 verification conditions per operand size (bounded in width, complete in values)'),
}
checks = []
for pid in sorted(CHECKS):
    cat, text, tech = CHECKS[pid]
    checks.append({'property_id': pid, 'quick_cmd': 'bin/check %s quick' % pid, 'thorough_cmd': 'bin/check %s thorough' % pid,
                   'evidence_file': 'evidence/%s.json' % pid, 'replay_cmd_template': 'bin/check %s --replay {path}' % pid, 'engine': 'pyvc',
                   'level_claimed': {'category': cat, 'text': text, 'design_ref': 'DESIGN.md section 5 (%s)' % pid}, 'level_note': TB, 'technique': tech})
props = [json.loads(l)['id'] for l in open(os.path.join(V, 'properties.jsonl'))]
NA = {}
na = [{'property_id': p, 'reason': NA.get(p, 'check under construction in this round (not yet claimed); see DESIGN.md section 5 for the plan')} for p in props if p not in CHECKS]
m = {'version': 1, 'setup_cmd': 'true',
     'hooks': {'guard': 'BDCHT_CRYSP_VERIF', 'enable': 'none needed: the verifier reads /repo\'s working tree unmodified; no hook exists in the repository',
               'baseline_off_cmd': 'cd /repo && /venv/bin/python -m pytest -ra -q -p no:cacheprovider --timeout=900 --continue-on-collection-errors',
               'source_commits': [], 'add_only': True},
     'engines': [{'name': 'pyvc', 'path': 'pyvc/', 'serves_properties': sorted(CHECKS), 'kind_free_text': 'contract-based VC generator over the real Python AST + z3/cvc5; native replay of counterexamples'}],
     'checks': checks, 'not_applicable': na,
     'notes': 'exit codes of bin/check: 0 held, 1 VIOLATION (with replay), 2 undecided, 3 checker broken. Class B (bounded) obligations are reported separately in the evidence and never counted as proved.'}
json.dump(m, open(os.path.join(V, 'MANIFEST.json'), 'w'), indent=1)
print('checks:', [c['property_id'] for c in checks])
