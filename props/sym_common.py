# Shared contracts for Serpent / Threefish obligations (C02, C03, C10, C12).
from pyvc import val
from spec import serpent as SP, threefish as TF
import crysp.serpent as serpent, crysp.threefish as threefish
from crysp.bits import Bits

def mkb(v, n):
    b = Bits(0, n); b.ival = v; return b

def install_serpent_contracts(c):
    """_S/_Sinv/_L/_Linv through their contracts (obligations serpent._S/post, serpent._L/post)"""
    def hS(I, args, kw):
        i, X = args
        if not isinstance(i, int) or not 0 <= i < 8 or X.size != 128: return NotImplemented
        return (mkb(SP.S[i](X.ival), 128),)
    def hSi(I, args, kw):
        i, X = args
        if not isinstance(i, int) or not 0 <= i < 8 or X.size != 128: return NotImplemented
        return (mkb(SP.SINV[i](X.ival), 128),)
    def hL(I, args, kw):
        (X,) = args
        if X.size != 128: return NotImplemented
        return (mkb(SP.L(X.ival), 128),)
    def hLi(I, args, kw):
        (X,) = args
        if X.size != 128: return NotImplemented
        return (mkb(SP.LINV(X.ival), 128),)
    c.replace(serpent._S, hS); c.replace(serpent._Sinv, hSi); c.replace(serpent._L, hL); c.replace(serpent._Linv, hLi)

def install_threefish_contracts(c):
    """Threefish.__MIX/__MIXinv through their contracts (obligation Threefish.MIX/post)"""
    def hm(I, args, kw):
        self, x0, x1, d, j = args
        r = TF.R[self.Nw][d % 8][j]
        y0, y1 = TF.MIX[r](x0.ival, x1.ival)
        return ([mkb(y0, 64), mkb(y1, 64)],)
    def hi(I, args, kw):
        self, y0, y1, d, j = args
        r = TF.R[self.Nw][d % 8][j]
        x0, x1 = TF.MIXINV[r](y0.ival, y1.ival)
        return ([mkb(x0, 64), mkb(x1, 64)],)
    c.replace(threefish.Threefish._Threefish__MIX, hm); c.replace(threefish.Threefish._Threefish__MIXinv, hi)
