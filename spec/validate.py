# Cross-checks of the executable specifications against oracles that share no code with crysp (hashlib, zlib, hmac,
# published known answers).  Run at the start of every check (pyvc.main); a failure means the CHECK is broken (exit 3).
import hashlib, hmac, zlib, os, random, json

def _rnd(n, seed=1):
    r = random.Random(seed * 1000 + n); return bytes(r.randrange(256) for _ in range(n))

def sha():
    from spec import sha as S
    for n in list(range(0, 70)) + [111, 112, 119, 120, 127, 128, 129, 200]:
        m = _rnd(n)
        assert bytes(S.sha2(256, m)) == hashlib.sha256(m).digest() and bytes(S.sha2(224, m)) == hashlib.sha224(m).digest()
        assert bytes(S.sha2(384, m)) == hashlib.sha384(m).digest() and bytes(S.sha2(512, m)) == hashlib.sha512(m).digest()
        assert bytes(S.sha1(m)) == hashlib.sha1(m).digest() and bytes(S.md5(m)) == hashlib.md5(m).digest()
    assert bytes(S.sha2(512, b'abc', t=256)).hex().startswith('53048e2681941ef9') and bytes(S.sha2(512, b'abc', t=224)).hex().startswith('4634270f707b6a54')
    assert bytes(S.md4(b'abc')).hex() == 'a448017aaf21d8525fc10ae87aa6729d' and bytes(S.md4(b'')).hex() == '31d6cfe0d16ae931b73c59d7e0c089c0'
    assert bytes(S.sha1(b'abc', version=0)).hex() == '0164b8a914cd2a5e74c4f7ff082c4d97f1edf880'
    # NIST bit-oriented example: SHA-1 of the 5 bits 10011 (0x98) = 29826b003b906e660eff4027ce98af3531ac75ba
    assert bytes(S.sha1(b'\x98', 5)).hex() == '29826b003b906e660eff4027ce98af3531ac75ba'

def aes():
    from spec import aes as A
    pt = bytes.fromhex('00112233445566778899aabbccddeeff')
    for k, ct in (('000102030405060708090a0b0c0d0e0f', '69c4e0d86a7b0430d8cdb78070b4c55a'), ('000102030405060708090a0b0c0d0e0f1011121314151617', 'dda97ca4864cdfe06eaf70a0ec0d7191'),
                  ('000102030405060708090a0b0c0d0e0f101112131415161718191a1b1c1d1e1f', '8ea2b7ca516745bfeafc49904b496089')):
        c = bytes(A.encrypt(list(bytes.fromhex(k)), list(pt)))
        assert c.hex() == ct and bytes(A.decrypt(list(bytes.fromhex(k)), list(c))) == pt
    assert bytes(A.key_expansion(list(bytes.fromhex('2b7e151628aed2a6abf7158809cf4f3c')))[43]).hex() == 'b6630ca6' and A.SBOX[0x53] == 0xed

def des():
    from spec import des as D
    for k, p, c in (('0123456789ABCDEF', '4E6F772069732074', '3FA40E8A984D4815'), ('133457799BBCDFF1', '0123456789ABCDEF', '85E813540F0AB405'), ('0101010101010101', '8000000000000000', '95F8A5E5DD31D900'),
                    ('8001010101010101', '0000000000000000', '95A8D72813DAA94D'), ('7CA110454A1A6E57', '01A1D6D039776742', '690F5B0D9A26939B'), ('0131D9619DC1376E', '5CD54CA83DEF57DA', '7A389D10354BD271'),
                    ('FFFFFFFFFFFFFFFF', 'FFFFFFFFFFFFFFFF', '7359B2163E4EDC58'), ('3000000000000000', '1000000000000001', '958E6E627A05557B'), ('FEDCBA9876543210', '0123456789ABCDEF', 'ED39D950FA74BCC4')):
        assert bytes(D.encrypt(bytes.fromhex(k), bytes.fromhex(p))).hex().upper() == c and bytes(D.decrypt(bytes.fromhex(k), bytes.fromhex(c))).hex().upper() == p

def serpent():
    from spec import serpent as SP
    for k, p, c in (("80" + "00" * 31, "00" * 16, "A223AA1288463C0E2BE38EBD825616C0"), ("11" * 32, "11" * 16, "A482EAA5D5771F2FDB2EA1A5F141B9E2"), ("80" + "00" * 15, "00" * 16, "264E5481EFF42A4606ABDA06C0BFDA3D")):
        assert bytes(SP.encrypt(bytes.fromhex(k), bytes.fromhex(p))).hex().upper() == c and bytes(SP.decrypt(bytes.fromhex(k), bytes.fromhex(c))) == bytes.fromhex(p)

def threefish():
    from spec import threefish as T
    for v in json.load(open(os.path.join(os.path.dirname(__file__), 'kats', 'threefish_skein13.json'))):
        k, t, p, c = (bytes.fromhex(s) for s in v)
        assert bytes(T.encrypt(k, t, p)) == c and bytes(T.decrypt(k, t, c)) == p

def keccak():
    from spec import keccak as K
    for n in (0, 1, 71, 72, 135, 136, 137, 200):
        m = _rnd(n)
        assert bytes(K.sha3(256, m)) == hashlib.sha3_256(m).digest() and bytes(K.sha3(512, m)) == hashlib.sha3_512(m).digest()
        assert bytes(K.shake(128, m, 400)) == hashlib.shake_128(m).digest(50) and bytes(K.shake(256, m, 1600)) == hashlib.shake_256(m).digest(200)

def blake():
    from spec import blake as B
    for n in (0, 1, 63, 64, 65, 127, 128, 129, 300):
        m = _rnd(n)
        assert bytes(B.blake2(64, m)) == hashlib.blake2b(m).digest() and bytes(B.blake2(32, m)) == hashlib.blake2s(m).digest()
        assert bytes(B.blake2(64, m, outlen=20, salt=b'ab', pers=b'xyz', fanout=2, depth=3, leafl=5, noffset=7, ndepth=1, inner=9)) == hashlib.blake2b(m, digest_size=20, salt=b'ab', person=b'xyz', fanout=2, depth=3, leaf_size=5, node_offset=7, node_depth=1, inner_size=9).digest()
    assert bytes(B.blake(256, b'\0')).hex().upper() == '0CE8D4EF4DD7CD8D62DFDED9D4EDB0A774AE6A41929A74DA23109E8F11139C87'
    assert bytes(B.blake(224, b'\0' * 72)).hex().upper() == 'F5AA00DD1CB847E3140372AF7B5C46B4888D82C8C0A917913CFB5D04'
    assert bytes(B.blake(512, b'\0')).hex().upper().startswith('97961587F6D970FABA6D2478045DE6D1') and bytes(B.blake(384, b'\0' * 144)).hex().upper().startswith('0B9845DD429566CD')

def stream():
    from spec import stream as ST
    assert ST.salsa_qr([1, 0, 0, 0]) == [0x08008145, 0x80, 0x10200, 0x20500000]
    assert ST.chacha_qr([0x11111111, 0x01020304, 0x9b8d6f43, 0x01234567]) == [0xea2a92f4, 0xcb1cf8ce, 0x4581472e, 0x5881c4bb]
    assert bytes(ST.rc4(bytes([1, 2, 3, 4, 5]), 8)).hex() == 'b2396305f03dc027'

def skein():
    from spec import skein as SK
    assert bytes(SK.skein(256, 256, [0xff])).hex().upper() == '0B98DCD198EA0E50A7A244C444E25C23DA30C10FC9A1F270A6637F1F34E67ED2'
    assert bytes(SK.skein(256, 256, [])).hex().upper() == 'C8877087DA56E072870DAA843F176E9453115929094C3A40C463A196C29BF7BA'
    assert bytes(SK.skein(256, 256, [0], 1)).hex().upper() == '52D2B5FFC2966C06BA7BB0CC2BABBC935E99146487FB361A239830D4D688C988'

def md6():
    from spec import md6 as M6
    assert bytes(M6.md6(256, b'abc', rounds=5)).hex() == '8854c14dc284f840ed71ad7ba542855ce189633e48c797a55121a746be48cec8'
    assert bytes(M6.md6(256, b'')).hex().startswith('bca38b24a804aa37') and bytes(M6.md6(128, b'')).hex().startswith('032f75b3')

def crc():
    from props.C15 import crc_bitwise, POLY32
    for m in (b'', b'a', b'123456789', bytes(range(256))):
        assert crc_bitwise(list(m), POLY32, 32, 0xffffffff, 0xffffffff) == zlib.crc32(m)
    assert crc_bitwise(list(b'123456789'), 0xA001, 16, 0, 0) == 0xBB3D        # CRC-16/ARC check value

BY_PROPERTY = {'C01': [sha], 'C02': [aes, des, serpent, threefish], 'C03': [aes, des, serpent, threefish], 'C04': [keccak], 'C05': [aes], 'C06': [stream], 'C10': [sha, blake], 'C11': [blake, sha],
               'C12': [skein, threefish], 'C13': [sha], 'C14': [sha, blake], 'C15': [crc], 'C17': [md6], 'C18': [des]}

def run(prop):
    done = []
    for f in BY_PROPERTY.get(prop, []):
        f(); done.append(f.__name__)
    return done
