# Native demonstrations of the genuine defects found on the pinned tree.
# Usage: PYTHONPATH=/repo /venv/bin/python /verif/findings/demos.py [name ...]
# Each demo returns True when the property holds (i.e. after the fix).
import sys, hashlib, hmac as pyhmac, itertools, zlib

def _exc(f, *a, **k):
    try:
        f(*a, **k)
    except BaseException as e:
        return type(e).__name__
    return None

def bits_neg():
    from crysp.bits import Bits
    return all(((Bits(a, n) + (-Bits(a, n))).ival == 0 and (-Bits(a, n)).size == n)
               for n in (1, 4, 7) for a in range(1 << n))

def bits_mul_int():
    from crysp.bits import Bits
    return _exc(lambda: Bits(5, 8) * 3) is None and (Bits(5, 8) * 3).ival == 15 and (Bits(200, 8) * 3).ival == (600 & 255)

def bits_unpack_bigend():
    from crysp.bits import unpack
    return all(unpack(bytes(range(1, n + 1)), True) == (int.from_bytes(bytes(range(1, n + 1)), 'big'), 8 * n)
               for n in range(1, 41))

def bits_bit_index():
    from crysp.bits import Bits
    return _exc(Bits(0, 0).bit, 0) == 'IndexError'

def bits_setitem_index():
    from crysp.bits import Bits
    b = Bits(0, 0)
    return _exc(b.__setitem__, 0, 1) == 'IndexError' and b.ival == 0

def bits_setitem_stepped_int():
    from crysp.bits import Bits
    b = Bits(0xff, 8)
    if _exc(b.__setitem__, slice(0, 8, 2), 3) is not None: return False
    return b.ival == 0b10101111

def poly_binops_dim():
    from crysp.poly import Poly
    a, b = Poly([1, 2], 8), Poly([4, 5, 6, 7], 8)
    return all(op(a, b).ival == op(b, a).ival and len(op(a, b).ival) == 4
               for op in (lambda x, y: x | y, lambda x, y: x ^ y, lambda x, y: x + y)) and (a - b).ival == [253, 253, 250, 249]

def poly_empty():
    from crysp.poly import Poly
    return all(op(Poly([], 8), Poly([], 8)).ival == [] for op in
               (lambda x, y: x | y, lambda x, y: x ^ y, lambda x, y: x + y, lambda x, y: x - y, lambda x, y: x & y))

def poly_neg_ring():
    from crysp.poly import Poly
    p = Poly([1, 2, 0], 8)
    return (-p).size == 8 and (-p).ival == [255, 254, 0] and (p + (-p)).ival == [0, 0, 0]

def aes_gmul_zero():
    from crysp.aes import gmul
    return all(_exc(gmul, a, 0) is None and gmul(a, 0) == 0 for a in range(256))

def aes_block_size():
    from crysp.aes import AES
    a = AES(bytes(16))
    return all(_exc(a.enc, bytes(n)) is not None and _exc(a.dec, bytes(n)) is not None for n in (0, 3, 15, 17, 20, 32))

def tdea_24():
    from crysp.des import TDEA, DES
    k = bytes(range(1, 25)); m = b'abcdefgh'
    if _exc(TDEA, k) is not None: return False
    return TDEA(k).enc(m) == DES(k[16:]).enc(DES(k[8:16]).dec(DES(k[:8]).enc(m))) == TDEA(k[:8], k[8:16], k[16:]).enc(m)

def serpent_long_key():
    from crysp.serpent import Serpent
    return _exc(Serpent, bytes(33)) is not None and _exc(Serpent, bytes(40)) is not None and _exc(Serpent, bytes(32)) is None

def _refkeccak(M, bits, r, b, outbits, msbfirst):
    # reference sponge on bit lists; M bytes, bit i of message = (byte>>(7-i%8)) if msbfirst else (byte>>(i%8))
    def bit(i):
        by = M[i // 8]
        if msbfirst and i // 8 == bits // 8:      # NIST convention: the last partial byte holds its bits at the MSB side
            return (by >> (8 - bits % 8 + i % 8)) & 1
        return (by >> (i % 8)) & 1
    P = [bit(i) for i in range(bits)]
    P += [1] + [0] * ((-bits - 2) % r) + [1]
    w = b // 25
    def f(S):
        from crysp.keccak import Keccak, State
        from crysp.bits import Bits
        k = Keccak(b=b, r=r if r < b else b - 1)
        st = State(w)
        for l in range(25): st.lanes[l] = Bits(sum(S[l * w + z] << z for z in range(w)), w)
        st = k.f(st)
        return [st.lanes[l].bit(z) for l in range(25) for z in range(w)]
    S = [0] * b
    for i in range(0, len(P), r):
        blk = P[i:i + r] + [0] * (b - r)
        S = f([x ^ y for x, y in zip(S, blk)])
    Z = S[:r]
    while len(Z) < outbits:
        S = f(S); Z += S[:r]
    return Z[:outbits]

def _kbits(out, n):
    return [(out[i // 8] >> (i % 8)) & 1 for i in range(n)]

def keccak_rm1():
    from crysp.keccak import Keccak
    k = Keccak(b=200, r=72, len=64)
    M = bytes(range(9))
    L = 71
    if _exc(k, M, L) is not None: return False
    return _kbits(k(M, L), 64) == _refkeccak(M, L, 72, 200, 64, True)

def keccak_short_bitlen():
    from crysp.keccak import Keccak
    k = Keccak(b=200, r=72, len=64)
    M = bytes([0xa5, 0x3c, 0x77, 0x19, 0xfe])
    return all(_kbits(k(M, L), 64) == _refkeccak(M, L, 72, 200, 64, True) for L in (0, 3, 8, 13, 16, 21, 33))

def keccak_small_rate():
    from crysp.keccak import Keccak
    M = bytes([0xa5, 0x3c, 0x77])
    ok = True
    for r in (1, 2, 4, 7):
        k = Keccak(b=25, r=r, len=16)
        k.duplexing = True
        ok = ok and _exc(k, M, 24) is None and _kbits(k(M, 24), 16) == _refkeccak(M, 24, r, 25, 16, False)
    return ok

def keccak_rate_persists():
    from crysp.keccak import Keccak
    k = Keccak(b=1600, c=512, len=256); ref = Keccak(b=1600, c=512, len=256)(b'abc')
    k(b'abc', r=576)
    return k(b'abc') == ref and k.r == 1088

def mode_second_enc():
    from crysp.mode import ECB, CBC
    from crysp.aes import AES
    a = AES(bytes(16))
    e = ECB(a); c = CBC(a, bytes(16))
    x = e.enc(b'hello'); y = c.enc(b'hello')
    return _exc(e.enc, b'hello') is None and e.enc(b'hello') == x and _exc(c.enc, b'hello') is None and c.enc(b'hello') == y

def ctr_dec():
    from crysp.mode import CTR
    from crysp.aes import AES
    a = AES(bytes(16))
    return all(_exc(CTR(a, bytes(16)).dec, CTR(a, bytes(16)).enc(bytes(range(n)))) is None
               and CTR(a, bytes(16)).dec(CTR(a, bytes(16)).enc(bytes(range(n)))) == bytes(range(n)) for n in (0, 1, 16, 17, 40))

def cts_modes():
    from crysp.mode import CTS_ECB, CTS_CBC
    from crysp.aes import AES
    a = AES(bytes(16)); iv = bytes(range(16))
    ok = True
    for n in (16, 17, 31, 32, 45):
        m = bytes(range(n))
        e = CTS_ECB(a)
        ok = ok and _exc(e.enc, m) is None
        if not ok: return False
        c = e.enc(m)
        ok = ok and len(c) == n and CTS_ECB(a).dec(c) == m
        e = CTS_CBC(a, iv)
        ok = ok and _exc(e.enc, m) is None
        if not ok: return False
        c = e.enc(m)
        ok = ok and len(c) == n + 16 and c[:16] == iv and _exc(CTS_CBC(a, iv).dec, c) is None and CTS_CBC(a, iv).dec(c) == m
    return ok

def rc4_empty():
    from crysp.rc4 import RC4
    return RC4(b'k').enc(b'') == b''

def hmac_long_key():
    from crysp.hmac import HMAC
    from crysp.sha import SHA2
    k = bytes(range(100)); m = b'msg'
    return HMAC(SHA2(256), k)(m) == pyhmac.new(k, m, hashlib.sha256).digest()

def blake2_multiblock():
    from crysp.blake import Blake2
    return all(Blake2(512)(bytes(range(256))[:n] * 1) == hashlib.blake2b(bytes(range(256))[:n]).digest() for n in (0, 1, 128, 129, 255, 256)) \
       and all(Blake2(256)(bytes(range(200))[:n]) == hashlib.blake2s(bytes(range(200))[:n]).digest() for n in (0, 64, 65, 128, 129, 200))

def blake2_outlen_persists():
    from crysp.blake import Blake2
    h = Blake2(512)
    h(b'abc', outlen=20)
    return h(b'abc') == hashlib.blake2b(b'abc').digest()

def blake2_piecewise():
    from crysp.blake import Blake2
    m = bytes(range(256)) + b'tail'
    h = Blake2(512); h.initstate()
    h.update(m[:128]); h.update(m[128:256])
    return h.update(m[256:], padding=True) == hashlib.blake2b(m).digest()

def skein_long_output():
    from crysp.skein import Skein
    # Skein-256 with 512-bit output of the empty message: second output block must use a fresh tweak
    from crysp.skein import UBI, Tweak
    from crysp.threefish import Threefish
    from crysp.bits import Bits, pack
    s = Skein(256, 512)
    out = s(b'')
    G = s.G
    exp = b''.join(UBI(Threefish, G, Tweak(Type='out'))(pack(Bits(n, 64))) for n in range(2))
    return out == exp

def skein_bitlen_aligned():
    from crysp.skein import Skein
    return Skein(256, 256)(b'\xff\xfe', 16) == Skein(256, 256)(b'\xff\xfe') and Skein(256, 256)(b'\xff\xfe', 8) == Skein(256, 256)(b'\xff')

def padding_empty_piece():
    from crysp.sha import SHA2
    h = SHA2(256); h.initstate()
    if _exc(h.update, b'') is not None: return False
    return h.update(b'abc', padding=True) == hashlib.sha256(b'abc').digest()

def tlsh_short():
    from crysp.tlsh import TLSH
    return _exc(TLSH(128), b'short') is None and TLSH(128)(b'short') is None

def combink_runs():
    from crysp.utils.perms import combink
    l = list('abcde')
    if _exc(lambda: list(combink(l, 3, 0))) is not None: return False
    return [tuple(x) for x in combink(l, 3, 0)] == list(itertools.combinations(l, 3))

def nextperm_repeats():
    from crysp.utils.perms import nextperm
    l = [1, 1, 2]
    seq = []
    for _ in range(4):
        seq.append(tuple(l)); nextperm(l)
    return seq == [(1, 1, 2), (1, 2, 1), (2, 1, 1), (1, 1, 2)]

def exactsum_state():
    from crysp.utils.knapsack import exactsum
    l = [('a', 3), ('b', 5), ('c', 7)]
    r1 = exactsum(l, 8); r2 = exactsum(l, 8)
    ok = sorted(r1) == [('a', 3), ('b', 5)] and sorted(r2) == [('a', 3), ('b', 5)]
    r0 = exactsum(l, 0)
    return ok and r0 == [] and exactsum(l, 4) is False

def dynprog_runs():
    from crysp.utils.knapsack import dynprog
    l = [('a', 3), ('b', 5), ('c', 8)]
    if _exc(dynprog, l, 8) is not None: return False
    return dynprog(l, 8) == [('c', 8)] and dynprog(l, 4) is None and dynprog(l, 0) == []


def padding_bitlen_zero():
    from crysp.padding import bitpadding
    p = bitpadding(64)
    return b''.join(p.iterblocks(b'a' * 20, bitlen=0)) == b'\x80' + bytes(7)

def padding_padonly_counter():
    # a final piece without message bits: its (padding-only) block must report a zero bit counter;
    # BLAKE fed piecewise with an empty final piece must equal the one-shot digest
    from crysp.blake import Blake
    m = bytes(range(64))
    h = Blake(256); h.initstate(0)
    h.update(m)
    return h.update(b'', padding=True) == Blake(256)(m)

def nextperm_empty():
    from crysp.utils.perms import nextperm
    return _exc(nextperm, []) is None and nextperm([]) == [] and nextperm([7]) == [7]

def exactsum_skips_first():
    from crysp.utils.knapsack import exactsum
    l = [('a', 1), ('b', 3)]
    return exactsum(l, 3) == [('b', 3)] and exactsum(l, 4) in ([('b', 3), ('a', 1)], [('a', 1), ('b', 3)]) and exactsum(l, 2) is False

def keccak_duplex_flag():
    from crysp.keccak import Keccak
    k = Keccak(b=200, r=72, len=80); ref = Keccak(b=200, r=72, len=80)(bytes(range(70)), 13)
    k.duplex(b'x', 3)
    return k(bytes(range(70)), 13) == ref

def nilsimsa_call_after_update():
    from crysp.nilsimsa import Nilsimsa
    o = Nilsimsa(); o.update(b'abc')
    return o(bytes(range(70))) == Nilsimsa()(bytes(range(70)))

def skein_empty_key():
    # Skein 1.3 section 3.5.2: an empty key means K' = 0 (no key stage), i.e. the plain hash
    from crysp.skein import Skein
    return Skein(256, 256, key=b'')(b'x') == Skein(256, 256)(b'x') and Skein(512, 512, key=b'k')(b'x') != Skein(512, 512)(b'x')

def _md6ref(*a, **k):
    sys.path.insert(0, '/verif')
    from spec import md6 as M6
    return bytes(M6.md6(*a, **k))

def md6_seq_key():
    # the sequential mode (L=0, or the top of a hybrid tree) must use the key like the tree mode does
    from crysp.md import MD6
    m = bytes(range(200))
    return MD6(256, b'key', 0)(m) == _md6ref(256, m, None, b'key', 0) and MD6(256, b'key', 0)(m) != MD6(256, b'yek', 0)(m)

def md6_seq_alignment():
    # d not a multiple of 8: the last d bits, left-justified, in both modes
    from crysp.md import MD6
    m = b'abc'
    return MD6(13, b'', 0)(m) == _md6ref(13, m, None, b'', 0) and MD6(13, b'', 64)(m) == _md6ref(13, m, None, b'', 64)

def md6_bitlen_levels():
    from crysp.md import MD6
    m = bytes(range(256)) * 3
    return _exc(MD6(256, b'', 1), m, 8 * 768 - 3) is None and MD6(256, b'', 1)(m, 8 * 768 - 3) == _md6ref(256, m, 8 * 768 - 3, b'', 1)

ALL = [v for k, v in list(globals().items()) if callable(v) and not k.startswith('_') and getattr(v, '__module__', None) == '__main__']

if __name__ == '__main__':
    names = sys.argv[1:]
    bad = 0
    for f in ALL:
        if names and f.__name__ not in names: continue
        try:
            r = f()
        except BaseException as e:
            r = 'EXC %s: %s' % (type(e).__name__, e)
        print('%-28s %s' % (f.__name__, 'holds' if r is True else 'FAILS (%s)' % r))
        bad += r is not True
    sys.exit(1 if bad else 0)
