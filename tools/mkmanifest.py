#!/usr/bin/env python3
# regenerate MANIFEST.json from the table below (keeps the file valid at all times)
import json, os
V = os.path.dirname(os.path.dirname(os.path.abspath(__file__)))
TB = ("Trusted: the pyvc AST evaluator's semantics of the Python subset (checked differentially against CPython on every discharged obligation), "
      "engine models of builtins/struct/BytesIO on symbolic arguments, z3 (cvc5 as second opinion for unsat), the executable specifications under /verif/spec "
      "(cross-checked against independent oracles), Python integers as mathematical integers. Termination is not proved.")
CHECKS = {
 'C01': ('proof', "Contracts on the real sha.py/md.py/padding.py code, VCs generated from the AST on every run: component formulas, one-iteration compression == FIPS/RFC compression for all state/block values (10 algorithms), IV and constant tables, last-block padding for every tail length and bit residue with unbounded symbolic counters - all discharged (class L/E). The composition through the block iterator is a bounded stand-in (class B: messages up to 2 blocks, contents symbolic) and is not counted as proved.",
         'sidecar contracts + AST-to-z3 verification conditions; loop-body contract for the compression; bounded composition'),
 'C02': ('proof', "AES: gmul on all 65536 pairs and both S-box tables by complete enumeration (E); every round layer, AddRoundKey and the key schedule (Nk=4,6,8) against FIPS 197 for all states/keys; enc/dec as compositions over those contracts (L). DES: all S-box entries (E), IP/IPinv/PC1/PC2/E/P, the 16 round keys and the cipher function F for all (R,key) against FIPS 46-3, the Feistel composition, TDEA for every accepted key form (L). Serpent: the 8 bit-slice S-boxes and inverses, the linear transform, the key schedule for every key length 0..32 bytes, enc/dec over arbitrary round keys (L). Threefish-256/512/1024: MIX/MIXinv for every (round, position), subkeys for every s, enc/dec composition (L). Rejection of undefined key/tweak/block sizes for the listed sizes (B).",
         'sidecar contracts + AST-to-z3 verification conditions; layer lemmas and composition over opaque layer contracts; exhaustive enumeration of finite tables'),
 'C03': ('proof', "Inverse pairs proved on the code's own tables and formulas (independent of the specification): AES S-box tables (E), ShiftRows/MixColumns/SubBytes pairs, AddRoundKey involution, DES IP/IPinv, Serpent _S/_Sinv (8 boxes), _IP/_FP, _L/_Linv, Threefish MIX/MIXinv for every rotation constant and pi/piinv, Salsa/ChaCha index maps (E) - all for every state value (L). Cipher-level round trips dec(enc(B))==B==enc(dec(B)) for AES-128/192/256, DES, TDEA (all key forms), Serpent, Threefish-256/512/1024 with symbolic key, tweak and block are lemmas over the layer contracts plus those inverse lemmas (L). rol/ror exactness and mutual inversion for widths up to 128 (quick) is bounded in width (B).",
         'sidecar contracts + AST-to-z3 verification conditions; round trips as lemmas over layer contracts with proved inverse lemmas applied as rewrites'),
 'C06': ('proof', "Salsa20/ChaCha quarter rounds, row/column/double rounds and the core for every even round count against the specifications for all 512-bit states (L); initial-state layout for 128/256-bit keys (L); the inductive step of the keystream loop for an ARBITRARY block index in [0,2^64) - counter words including the carry into the high word (I); RC4 PRGA step on an arbitrary 256-byte state (I). Bounded stand-ins (B): enc/dec/prefix for messages up to 130 bytes with symbolic key/nonce/message, RC4 key schedule for key lengths {1,2,3,5,16,255,256}, RC4 continuity over 1-3 pieces on an arbitrary state.",
         'sidecar contracts + AST-to-z3 verification conditions; loop-body (inductive step) obligations; GF(2)-affine canonical form'),
 'C15': ('proof', "crc32_fix hits every 32-bit target from every register state (all 2^64 pairs) - an XOR-linear identity decided by the GF(2)-affine normaliser (L); inductive step of the table-driven byte loop == 8 bitwise division steps for arbitrary register/byte (I, widths 8/16/32/64); backward computation inverts forward bytes (L); import-time tables (E). Bounded (B): crc_table for 19 polynomials of widths 8..64 incl. order independence, crc/crc32/fixers on messages up to 16-40 bytes with symbolic contents, targets and positions.",
         'sidecar contracts + AST-to-z3 verification conditions; GF(2)-affine normaliser for the linear identities; loop-body contracts'),
 'C16': ('proof', "Poly contracts from the coefficient-list model of the property, evaluated on the real poly.py with symbolic coefficients of the whole ring for each dimension pair in a stated list (bounded in dimension: class B; rings k in {0,1,2,3,8,32,64}). One recorded known finding (slice beyond the dimension is zero-padded).",
         'sidecar contracts + AST-to-z3 verification conditions per dimension (bounded in dimension, complete in coefficient values)'),
 'C08': ('proof', "Bits operator contracts taken from the (value,size) model in the property, evaluated on the real bits.py through the AST evaluator with symbolic values of the whole range for each concrete operand size in a stated list (bounded in width: class B), plus exhaustive enumeration (E) of int-valued selection assignment. Complete in values, bounded in width.",
         'sidecar contracts + AST-to-z3 verification conditions per operand size (bounded in width, complete in values)'),
}
checks = []
for pid in sorted(CHECKS):
    cat, text, tech = CHECKS[pid]
    checks.append({'property_id': pid, 'quick_cmd': 'bin/check %s quick' % pid, 'thorough_cmd': 'bin/check %s thorough' % pid,
                   'evidence_file': 'evidence/%s.json' % pid, 'replay_cmd_template': 'bin/check %s --replay {path}' % pid, 'engine': 'pyvc',
                   'level_claimed': {'category': cat, 'text': text, 'design_ref': 'DESIGN.md section 5 (%s)' % pid}, 'level_note': TB, 'technique': tech})
props = [json.loads(l)['id'] for l in open(os.path.join(V, 'properties.jsonl'))]
NA = {}
na = [{'property_id': p, 'reason': NA.get(p, 'check under construction in this round (not yet claimed); see DESIGN.md section 5 for the plan')} for p in props if p not in CHECKS]
m = {'version': 1, 'setup_cmd': 'true',
     'hooks': {'guard': 'BDCHT_CRYSP_VERIF', 'enable': 'none needed: the verifier reads /repo\'s working tree unmodified; no hook exists in the repository',
               'baseline_off_cmd': 'cd /repo && /venv/bin/python -m pytest -ra -q -p no:cacheprovider --timeout=900 --continue-on-collection-errors',
               'source_commits': [], 'add_only': True},
     'engines': [{'name': 'pyvc', 'path': 'pyvc/', 'serves_properties': sorted(CHECKS), 'kind_free_text': 'contract-based VC generator over the real Python AST + z3/cvc5; native replay of counterexamples'}],
     'checks': checks, 'not_applicable': na,
     'notes': 'exit codes of bin/check: 0 held, 1 VIOLATION (with replay), 2 undecided, 3 checker broken. Class B (bounded) obligations are reported separately in the evidence and never counted as proved.'}
json.dump(m, open(os.path.join(V, 'MANIFEST.json'), 'w'), indent=1)
print('checks:', [c['property_id'] for c in checks])
