#!/bin/sh
# tools/mut.sh <patch.diff | -R commit> <prop> [tier] [jobs] [extra bin/check arguments, e.g. --only <regex>]
# Evaluate one check against a modified copy of the repository: a scratch copy of /repo's HEAD is made under /tmp, the
# change is applied THERE and the check runs with PYVC_REPO pointing at the copy (the engine, the native replay and the
# specifications are the same).  /repo itself is not touched, so several of these can run side by side.
if [ "$1" = "-R" ]; then rev=1; shift; fi
p="$1"; [ -z "$rev" ] && p=$(readlink -f "$p"); prop="$2"; tier="${3:-quick}"; jobs="${4:-8}"; [ $# -ge 4 ] && shift 4 || shift $#
d=$(mktemp -d /tmp/mutrepo.XXXXXX)
git -C /repo archive HEAD | tar -x -C "$d" || exit 9
if [ -n "$rev" ]; then (cd "$d" && git -C /repo show "$p" -- crysp | patch -s -R -p1) || { rm -rf "$d"; exit 9; }
else (cd "$d" && patch -s -p1 < "$p") || { rm -rf "$d"; exit 9; }; fi
PYVC_REPO="$d" PYVC_JOBS="$jobs" /verif/bin/check "$prop" "$tier" --no-evidence "$@" 2>&1 | grep -E "^(VIOLATION|UNDECIDED|CHECKER|property=)" | cut -c1-230 | awk '/^property=/{print;next} n<6{print;n++}' 
rm -rf "$d"
