# GF(2)-affine canonical form of bit-vector terms (third back end, DESIGN.md section 3.5).
# Every bit of a term is written as  c XOR (xor of atom bits);  atoms are the non-affine sub-terms
# (variables, uninterpreted applications, adders, multipliers, ITEs, ...) identified by the canonical
# forms of their arguments (AC operators with sorted arguments and folded constants).  Two terms with the
# same canonical form are equal for every interpretation -- the converse does not hold, so the
# normaliser can only discharge an equality, never refute one.
import z3

class Canon:
    def __init__(self):
        self.memo = {}
        self.intern = {}
        self.keep = []

    def _id(self, key):
        r = self.intern.get(key)
        if r is None:
            r = self.intern[key] = len(self.intern)
        return r

    def key(self, t):
        """canonical id of a term of any sort"""
        if z3.is_bv(t): return self._id(('bv', tuple(self.bits(t))))
        return self._id(self.boolkey(t))

    def boolkey(self, t):
        k = ('b', t.get_id())
        r = self.memo.get(k)
        if r is not None: return r
        self.keep.append(t)
        d = t.decl().kind()
        if z3.is_true(t): r = ('true',)
        elif z3.is_false(t): r = ('false',)
        elif d == z3.Z3_OP_NOT: r = ('not', self.key(t.arg(0)))
        elif d in (z3.Z3_OP_EQ, z3.Z3_OP_AND, z3.Z3_OP_OR, z3.Z3_OP_DISTINCT, z3.Z3_OP_IFF if hasattr(z3, 'Z3_OP_IFF') else -1):
            r = (t.decl().name(),) + tuple(sorted(self.key(c) for c in t.children()))
        elif t.num_args() == 0: r = ('const', t.decl().name())
        else: r = (t.decl().name(), tuple(t.params()) if hasattr(t, 'params') else ()) + tuple(self.key(c) for c in t.children())
        self.memo[k] = r
        return r

    def condbit(self, c):
        """affine form (mask, const) of a condition that is a single bit compared with a constant, else None"""
        d = c.decl().kind()
        if d == z3.Z3_OP_NOT:
            r = self.condbit(c.arg(0))
            return None if r is None else (r[0], r[1] ^ 1)
        if d in (z3.Z3_OP_EQ, z3.Z3_OP_DISTINCT) and c.num_args() == 2:
            x, y = c.arg(0), c.arg(1)
            if not z3.is_bv(x) or x.size() != 1: return None
            fx, fy = self.bits(x)[0], self.bits(y)[0]
            m = fx[0] ^ fy[0]; k = fx[1] ^ fy[1] ^ 1          # 1 when equal
            if d == z3.Z3_OP_DISTINCT: k ^= 1
            return (m, k)
        return None

    def atom(self, key, w):
        a = self._id(key)
        return [(frozenset(((a, i),)), 0) for i in range(w)]

    def bits(self, t):
        """list (LSB first) of (frozenset of atom bits, constant)"""
        k = t.get_id()
        r = self.memo.get(k)
        if r is not None: return r
        self.keep.append(t)
        r = self._bits(t)
        self.memo[k] = r
        return r

    def _const(self, v, w): return [(frozenset(), (v >> i) & 1) for i in range(w)]
    @staticmethod
    def _isconst(f): return all(not m for m, c in f)
    @staticmethod
    def _val(f): return sum(c << i for i, (m, c) in enumerate(f))

    def _bits(self, t):
        w = t.size()
        d = t.decl().kind()
        ch = t.children()
        if z3.is_bv_value(t): return self._const(t.as_long(), w)
        if d == z3.Z3_OP_UNINTERPRETED and not ch:
            return self.atom(('var', t.decl().name()), w)
        if d == z3.Z3_OP_BXOR:
            fs = [self.bits(c) for c in ch]
            out = []
            for i in range(w):
                m = frozenset(); c = 0
                for f in fs: m = m ^ f[i][0]; c ^= f[i][1]
                out.append((m, c))
            return out
        if d == z3.Z3_OP_BNOT: return [(m, c ^ 1) for m, c in self.bits(ch[0])]
        if d == z3.Z3_OP_EXTRACT:
            hi, lo = t.params(); return self.bits(ch[0])[lo:hi + 1]
        if d == z3.Z3_OP_CONCAT:
            out = []
            for c in reversed(ch): out += self.bits(c)
            return out
        if d == z3.Z3_OP_ZERO_EXT: return self.bits(ch[0]) + [(frozenset(), 0)] * t.params()[0]
        if d == z3.Z3_OP_SIGN_EXT:
            f = self.bits(ch[0]); return f + [f[-1]] * t.params()[0]
        if d in (z3.Z3_OP_ROTATE_LEFT, z3.Z3_OP_ROTATE_RIGHT):
            f = self.bits(ch[0]); n = t.params()[0] % w
            if d == z3.Z3_OP_ROTATE_RIGHT: n = (w - n) % w
            return f[w - n:] + f[:w - n] if n else f
        if d in (z3.Z3_OP_BSHL, z3.Z3_OP_BLSHR):
            s = self.bits(ch[1])
            if self._isconst(s):
                f = self.bits(ch[0]); n = self._val(s)
                if n >= w: return self._const(0, w)
                if d == z3.Z3_OP_BLSHR: return f[n:] + [(frozenset(), 0)] * n
                return [(frozenset(), 0)] * n + f[:w - n]
        if d in (z3.Z3_OP_BAND, z3.Z3_OP_BOR):
            fs = [self.bits(c) for c in ch]
            cs = [f for f in fs if self._isconst(f)]; vs = [f for f in fs if not self._isconst(f)]
            k = (1 << w) - 1 if d == z3.Z3_OP_BAND else 0
            for f in cs: k = (k & self._val(f)) if d == z3.Z3_OP_BAND else (k | self._val(f))
            if not vs: return self._const(k, w)
            if len(vs) == 1:
                f = vs[0]
                if d == z3.Z3_OP_BAND: return [f[i] if (k >> i) & 1 else (frozenset(), 0) for i in range(w)]
                return [(frozenset(), 1) if (k >> i) & 1 else f[i] for i in range(w)]
            # bitwise op of several non-constant operands: one atom per bit position (so that slices of it stay comparable)
            out = []
            nm = 'and' if d == z3.Z3_OP_BAND else 'or'
            neutral = 1 if d == z3.Z3_OP_BAND else 0
            for i in range(w):
                if ((k >> i) & 1) != neutral: out.append((frozenset(), 1 - neutral)); continue
                if any(not f[i][0] and f[i][1] != neutral for f in vs): out.append((frozenset(), 1 - neutral)); continue
                live = [f[i] for f in vs if f[i][0] or f[i][1] != neutral]
                if not live: out.append((frozenset(), neutral)); continue
                ops = tuple(sorted(set(self._id(('bit', x)) for x in live)))
                if len(ops) == 1: out.append(live[0]); continue
                a = self._id((nm, ops))
                out.append((frozenset(((a, 0),)), 0))
            return out
        if d in (z3.Z3_OP_BADD, z3.Z3_OP_BMUL):
            keys = []; cst = 0 if d == z3.Z3_OP_BADD else 1
            todo = list(ch)
            while todo:
                c = todo.pop()
                if c.decl().kind() == d: todo.extend(c.children()); continue
                f = self.bits(c)
                if self._isconst(f):
                    cst = (cst + self._val(f)) % (1 << w) if d == z3.Z3_OP_BADD else (cst * self._val(f)) % (1 << w)
                else: keys.append((self._id(('bv', tuple(f))), f))
            if not keys: return self._const(cst, w)
            if d == z3.Z3_OP_BMUL and cst == 0: return self._const(0, w)
            if len(keys) == 1 and cst == (0 if d == z3.Z3_OP_BADD else 1): return keys[0][1]
            # bit i of a sum/product depends only on the i+1 low bits of the operands: identify it by their truncations,
            # so that a slice of a wide adder and the same slice of the truncated adder get the same atoms
            nm = 'add' if d == z3.Z3_OP_BADD else 'mul'
            # prefix ids: pre[i] identifies the i+1 low bits of an operand, built incrementally (linear in the width)
            pres = []
            for k_, f in keys:
                prev = -1; pl = []
                for i in range(w):
                    prev = self._id(('pre', prev, f[i])); pl.append(prev)
                pres.append(pl)
            out = []
            for i in range(w):
                ks = tuple(sorted(pl[i] for pl in pres))
                a = self._id((nm, i, cst & ((1 << (i + 1)) - 1), ks))
                out.append((frozenset(((a, 0),)), 0))
            return out
        if d == z3.Z3_OP_ITE:
            cb = self.condbit(ch[0])
            a, b = self.bits(ch[1]), self.bits(ch[2])
            if cb is not None and all(x[0] == y[0] for x, y in zip(a, b)):
                # the arms differ by a constant: ite(c,a,b) = b xor c*(a xor b) is affine
                out = []
                for (ma, ca), (mb, cb_) in zip(a, b):
                    if ca != cb_: out.append((mb ^ cb[0], cb_ ^ cb[1]))
                    else: out.append((mb, cb_))
                return out
            return self.atom(('ite', self.key(ch[0]), self.key(ch[1]), self.key(ch[2])), w)
        # anything else (uninterpreted applications, bvsub, bvneg, division, comparisons inside ite conditions ...): an atom
        params = tuple(t.params()) if hasattr(t, 'params') else ()
        return self.atom((t.decl().name(), params, tuple(self.key(c) for c in ch)), w)

def equal(a, b):
    """True when the two bit-vector terms have the same canonical form"""
    C = Canon()
    return C.bits(a) == C.bits(b)

def closes(goal):
    """try to discharge a Bool goal that is a conjunction of bit-vector equalities"""
    C = Canon()
    todo = [goal]
    while todo:
        g = todo.pop()
        if z3.is_true(g): continue
        if z3.is_and(g): todo.extend(g.children()); continue
        if z3.is_eq(g) and z3.is_bv(g.arg(0)):
            if C.bits(g.arg(0)) != C.bits(g.arg(1)): return False
            continue
        return False
    return True
