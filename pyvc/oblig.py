# Obligation registry and the z3-free part of the obligation context.
# An obligation body is ordinary Python over a context `c`; the same body is
#   * evaluated symbolically by the engine (pyvc.symctx.SymCtx) to generate the VCs,
#   * run natively on concrete inputs (ConcreteCtx) for replay of counterexamples,
#     for exhaustive (class E) enumeration and for the concrete differential self-check.
import itertools, importlib, sys, os
from . import val

REG = {}          # property id -> [Obligation]

class Obligation:
    def __init__(self, prop, oid, fn, cls, funcs, cases, quick, use, canary, bound, domain, opaque, note, timeout, max_paths, finding, tiers=None, native=False, sufficient=False):
        self.native = native; self.sufficient = sufficient
        self.prop = prop; self.oid = oid; self.fn = fn; self.cls = cls; self.funcs = tuple(funcs)
        self.cases = cases; self.quick = quick; self.use = use; self.canary = canary; self.bound = bound
        self.domain = domain; self.opaque = tuple(opaque or ()); self.note = note; self.timeout = timeout
        self.max_paths = max_paths; self.finding = finding; self.tiers = tiers
        self.module = fn.__module__

    def instances(self, tier):
        """list of (instance id, case dict)"""
        if self.tiers and tier not in self.tiers: return []
        cs = self.cases
        if cs is None: return [(self.oid, {})]
        if callable(cs): cs = cs(tier)
        if isinstance(cs, dict):
            names = list(cs)
            cs = [dict(zip(names, p)) for p in itertools.product(*[list(cs[n]) for n in names])]
        out = []
        for c in cs:
            if tier == 'quick' and self.quick is not None and not self.quick(c): continue
            out.append((self.oid + '/' + ','.join('%s=%s' % (k, _fmt(v)) for k, v in c.items()), c))
        return out

def _fmt(v):
    if isinstance(v, (bytes, bytearray)): return v.hex() or "''"
    if isinstance(v, (tuple, list)): return '-'.join(_fmt(x) for x in v)
    return str(v)

def obligation(prop, oid, cls='L', funcs=(), cases=None, quick=None, use=None, canary=False, bound=None,
               domain=None, opaque=None, note='', timeout=None, max_paths=None, finding=None, tiers=None, native=False, sufficient=False):
    """register an obligation.
    sufficient: the postcondition is a SUFFICIENT condition that is stronger than the property (e.g. equal object states where the
         property asks for equal results): a refutation whose model does not fail natively is reported as undecided, not as a violation
    cls: 'L' lemma (loop free / concretely bounded, whole domain symbolic)   -- proved
         'I' inductive (loop invariant / fold step over unbounded input)     -- proved
         'E' exhaustive enumeration of a finite domain by native execution   -- proved
         'B' bounded stand-in (a size parameter enumerated up to `bound`)    -- never counted as proved
    native: the body uses concrete inputs only and is executed natively (no evaluator): for class E/B corpora
    funcs: dotted names of the repository functions under contract in this obligation
    use:   names of contracts (pyvc.contracts) the evaluation may rely on instead of callee bodies
    opaque: names of spec functions that are uninterpreted in this obligation
    """
    assert cls in ('L', 'I', 'E', 'B')
    def deco(fn):
        REG.setdefault(prop, []).append(Obligation(prop, oid, fn, cls, funcs, cases, quick, use, canary, bound, domain,
                                                   opaque, note, timeout, max_paths, finding, tiers, native, sufficient))
        return fn
    return deco

def load(prop):
    importlib.import_module('props.' + prop)
    return REG.get(prop, [])

class Failure(Exception):
    pass

class BaseCtx:
    mode = None
    def __init__(self, case=None):
        self._case = case or {}
    def case(self, name): return self._case[name]
    def ints(self, name, k, lo, hi): return [self.int('%s[%d]' % (name, i), lo, hi) for i in range(k)]
    def word(self, name, n): return self.int(name, 0, (1 << n) - 1)
    def words(self, name, k, n): return self.ints(name, k, 0, (1 << n) - 1)
    def bits(self, name, n):
        from crysp.bits import Bits
        b = Bits(0, n)
        b.ival = self.word(name, n) if n > 0 else 0
        return b
    def poly(self, name, dim, size):
        from crysp.poly import Poly
        p = Poly([0] * dim, size)
        if dim == 0: p.ival = []
        else: p.ival = self.words(name, dim, size) if size else self.ints(name, dim, -(1 << 70), 1 << 70)
        return p
    def outcome(self, f, *a, **k):
        try:
            return ('ok', self.call(f, *a, **k))
        except Failure: raise
        except Exception as e:
            if self._is_engine_error(e): raise
            return ('exc', e)
    def _is_engine_error(self, e): return False
    def raises(self, label, excs, f, *a, **k):
        """postcondition: the call is refused with one of `excs` (never returns a value)"""
        o = self.outcome(f, *a, **k)
        if o[0] == 'ok': self.ensure(label, False, got='returned a value')
        else: self.ensure(label, isinstance(o[1], excs), got=type(o[1]).__name__)
        return o
    def eq(self, a, b): return val.eq(a, b)
    def replace(self, f, handler):
        """use a callee's contract instead of its body (symbolic mode only; the contract is proved by its own obligation)"""
        pass
    def loop_contract(self, qualname, ordinal, handler):
        """replace the body of the ordinal-th loop of a repository function by its contract (symbolic mode only)"""
        pass
    def axiom_inverse(self, f, g, proved_by):
        """forall x. g(f(x)) == x for two opaque spec functions of one argument (a lemma proved by `proved_by`)"""
        pass
    def loop_body(self, f, ordinal, local_vars):
        """execute ONCE the body of the ordinal-th loop of repository function f, from an arbitrary state of its
        local variables (the inductive step of the loop).  Returns (yielded values, locals afterwards).
        Only the evaluator can start a function in the middle: not natively replayable."""
        raise Failure('loop bodies cannot be started natively')
    def replace_wordfn(self, f, specfn):
        """callee f maps Bits words to a Bits word and is specified by the word function specfn(w, *values)"""
        def h(I, args, kw):
            from crysp.bits import Bits
            w = args[0].size
            r = Bits(0, w); r.ival = specfn(w, *[a.ival for a in args])
            return (r,)
        self.replace(f, h)
    # operators are applied through the context so that, in symbolic mode, the dispatch to the
    # repository's dunder methods is done by the evaluator (never natively on symbolic values)
    def binop(self, op, a, b): return self.call(_OPFUN[op], a, b)
    def unop(self, op, a): return self.call(_UNFUN[op], a)
    def getitem(self, o, i): return self.call(_getitem, o, i)
    def setitem(self, o, i, v): return self.call(_setitem, o, i, v)
    def getattr(self, o, n): return self.call(getattr, o, n)
    def setattr(self, o, n, v): return self.call(setattr, o, n, v)
    def len(self, o): return self.call(len, o)
    def list(self, o): return self.call(list, o)

import operator as _op
_OPFUN = {'+': _op.add, '-': _op.sub, '*': _op.mul, '&': _op.and_, '|': _op.or_, '^': _op.xor, '<<': _op.lshift, '>>': _op.rshift,
          '//': _op.floordiv, '%': _op.mod, '==': _op.eq, '!=': _op.ne, '<': _op.lt, '<=': _op.le, '>': _op.gt, '>=': _op.ge}
_UNFUN = {'-': _op.neg, '~': _op.invert, '+': _op.pos}
def _getitem(o, i): return o[i]
def _setitem(o, i, v): o[i] = v

class ConcreteCtx(BaseCtx):
    """native execution on concrete inputs (replay, class E enumeration)"""
    mode = 'concrete'
    def __init__(self, inputs=None, case=None):
        super().__init__(case)
        self.inputs = inputs or {}
        self.failures = []
        self.asked = {}
        self.assumption_failed = False
        self.ngoals = 0
    def int(self, name, lo, hi):
        v = self.inputs.get(name, lo)
        if not lo <= v <= hi: v = lo
        self.asked[name] = v
        return v
    def bytes(self, name, n):
        return bytes(self.int('%s[%d]' % (name, i), 0, 255) for i in range(n))
    def tail(self, name):
        # the token selects a concrete message: length token % 97, contents from a generator seeded with the token
        t = self.int(name + '#', 0, (1 << 64) - 1)
        import random as _r
        g = _r.Random(t)
        return bytes(g.randrange(256) for _ in range(t % 97))
    def call(self, f, *a, **k):
        return f(*a, **k)
    def assume(self, cond):
        if not cond:
            self.assumption_failed = True
            raise Failure('assumption does not hold for these inputs')
    def ensure(self, label, cond, **info):
        self.ngoals += 1
        if not cond: self.failures.append((label, info))
    def uf(self, name, *args):
        return val.OPAQUES[name].impl(*args)
    def note(self, *a, **k): pass

def run_concrete(ob, case, inputs):
    """-> dict(outcome='holds'|'fails'|'assumption', failures=[...], exception=str|None)"""
    c = ConcreteCtx(inputs, case)
    exc = None
    try:
        ob.fn(c)
    except Failure as e:
        return {'outcome': 'assumption', 'failures': [], 'exception': None, 'asked': c.asked}
    except ImportError as e:
        # the harness (not the code under test) could not be loaded in this interpreter: never a failure of the code
        return {'outcome': 'error', 'failures': [], 'exception': None, 'stderr': 'harness import error: %s' % e, 'asked': c.asked}
    except BaseException as e:
        exc = '%s: %s' % (type(e).__name__, e)
    if exc is not None or c.failures:
        return {'outcome': 'fails', 'failures': [(l, {k: repr(v) for k, v in i.items()}) for l, i in c.failures],
                'exception': exc, 'asked': c.asked}
    return {'outcome': 'holds', 'failures': [], 'exception': None, 'asked': c.asked, 'ngoals': c.ngoals}
