#!/usr/bin/env python3
# Regenerates the generated blocks of DESIGN.md: the per-property table (from evidence/*.json) and the run logs
# (from files given on the command line: --thorough <summary> --seeds <summary>).
import json, os, sys, re
V = os.path.dirname(os.path.dirname(os.path.abspath(__file__)))
man = {c['property_id']: c for c in json.load(open(os.path.join(V, 'MANIFEST.json')))['checks']}
rows = ['| id | level | proved (L / I / E discharged) | bounded stand-ins held | known findings | quick wall s | obligations counted as proved |', '|---|---|---|---|---|---|---|']
for pid in sorted(man):
    p = os.path.join(V, 'evidence', pid + '.json')
    if not os.path.exists(p): continue
    e = json.load(open(p)); c = e['coverage']; bc = c['by_class']
    names = sorted({(o.get('id') or '').split('/')[0] + '/' + ((o.get('id') or '').split('/') + [''])[1] for o in c.get('proved_obligations', [])}) if c.get('proved_obligations') else []
    rows.append('| %s | %s | %d / %d / %d | %d of %d | %s | %s | %s |' % (pid, e['level'], bc['L']['discharged'], bc['I']['discharged'], bc['E']['discharged'], c['bounded']['held'], c['bounded']['count'],
                len(c.get('known_findings') or []), e['wall_s'], '; '.join(c.get('proved_names', names))))
s = open(os.path.join(V, 'DESIGN.md')).read()
s = re.sub(r'<!-- TABLE-BEGIN -->.*?<!-- TABLE-END -->', lambda m: '<!-- TABLE-BEGIN -->\n' + '\n'.join(rows) + '\n<!-- TABLE-END -->', s, flags=re.S)
args = sys.argv[1:]
blocks = []
for flag, title in (('--thorough', 'Thorough tier, one run per property (PYVC_JOBS=8, other work running beside it):'), ('--seeds', 'All 40 seeded changes, each applied to a scratch copy and checked with the quick tier of its property:')):
    if flag in args:
        f = args[args.index(flag) + 1]
        if os.path.exists(f): blocks.append(title + '\n\n```\n' + open(f).read().strip() + '\n```\n')
if blocks:
    s = re.sub(r'<!-- RUNS-BEGIN -->.*?<!-- RUNS-END -->', lambda m: '<!-- RUNS-BEGIN -->\n' + '\n'.join(blocks) + '<!-- RUNS-END -->', s, flags=re.S)
open(os.path.join(V, 'DESIGN.md'), 'w').write(s)
print('DESIGN.md updated:', len(rows) - 2, 'rows')
