# FIPS 197 (AES) on plain integers.  The S-box is COMPUTED (inverse in GF(2^8) then the affine map),
# MixColumns uses xtime; nothing is copied from the repository.  Validated against FIPS 197
# appendix A/C vectors in spec/validate.py.
from pyvc.val import ite, select, mask, Opaque, WordFn

def xtime(a):
    """multiplication by x in GF(2^8) modulo x^8+x^4+x^3+x+1, on an int-like byte"""
    return ((a << 1) & 0xff) ^ (((a >> 7) & 1) * 0x1b)

def gf_mul(a, b):
    """a*b in GF(2^8); b is a concrete int, a an int-like byte"""
    r = 0; p = a
    while b:
        if b & 1: r = r ^ p
        p = xtime(p); b >>= 1
    return r

def _gf_mul_c(a, b):
    r = 0
    while b:
        if b & 1: r ^= a
        a = ((a << 1) ^ (0x11b if a & 0x80 else 0)) & 0x1ff; a &= 0xff if a < 0x100 else 0x1ff
        b >>= 1
    return r & 0xff
def _mulc(a, b):
    r = 0
    for i in range(8):
        if (b >> i) & 1: r ^= a << i
    for i in range(14, 7, -1):
        if (r >> i) & 1: r ^= 0x11b << (i - 8)
    return r
def _inv(a):
    if a == 0: return 0
    for b in range(1, 256):
        if _mulc(a, b) == 1: return b
def _affine(b):
    r = 0
    for i in range(8):
        bit = ((b >> i) ^ (b >> ((i + 4) % 8)) ^ (b >> ((i + 5) % 8)) ^ (b >> ((i + 6) % 8)) ^ (b >> ((i + 7) % 8)) ^ (0x63 >> i)) & 1
        r |= bit << i
    return r
SBOX = [_affine(_inv(a)) for a in range(256)]
SBOX_INV = [SBOX.index(a) for a in range(256)]
RCON = [None, 1]
for _ in range(2, 15): RCON.append(_mulc(RCON[-1], 2))

# byte-level S-box as spec functions (opaque in composition obligations)
sbox = Opaque('aes_sbox', lambda b: select(SBOX, b), [8], 8)
sbox_inv = Opaque('aes_sbox_inv', lambda b: select(SBOX_INV, b), [8], 8)

# ---- layers on the state as a list of 16 bytes in input order: byte 4c+r is row r of column c
def sub_bytes(s): return [sbox(b) for b in s]
def inv_sub_bytes(s): return [sbox_inv(b) for b in s]
def shift_rows(s): return [s[4 * ((c + r) % 4) + r] for c in range(4) for r in range(4)]
def inv_shift_rows(s): return [s[4 * ((c - r) % 4) + r] for c in range(4) for r in range(4)]
def _mixcol(col, m):
    return [gf_mul(col[0], m[(0 - r) % 4]) ^ gf_mul(col[1], m[(1 - r) % 4]) ^ gf_mul(col[2], m[(2 - r) % 4]) ^ gf_mul(col[3], m[(3 - r) % 4]) for r in range(4)]
def mix_columns(s):
    out = []
    for c in range(4): out += _mixcol(s[4 * c:4 * c + 4], [2, 3, 1, 1])
    return out
def inv_mix_columns(s):
    out = []
    for c in range(4): out += _mixcol(s[4 * c:4 * c + 4], [0xe, 0xb, 0xd, 0x9])
    return out
def add_round_key(s, k): return [a ^ b for a, b in zip(s, k)]

def key_expansion(key):
    """key: list of 4*Nk bytes -> list of 4*(Nr+1) words, each a list of 4 bytes"""
    Nk = len(key) // 4; Nr = Nk + 6
    w = [list(key[4 * i:4 * i + 4]) for i in range(Nk)]
    for i in range(Nk, 4 * (Nr + 1)):
        t = list(w[i - 1])
        if i % Nk == 0:
            t = t[1:] + t[:1]
            t = [sbox(b) for b in t]
            t[0] = t[0] ^ RCON[i // Nk]
        elif Nk > 6 and i % Nk == 4:
            t = [sbox(b) for b in t]
        w.append([a ^ b for a, b in zip(w[i - Nk], t)])
    return w

def _rk(w, r): return [b for word in w[4 * r:4 * r + 4] for b in word]

def encrypt(key, block, L=None, KE=None):
    L = L or LAYERS
    w = (KE or key_expansion)(key); Nr = len(key) // 4 + 6
    s = add_round_key(list(block), _rk(w, 0))
    for r in range(1, Nr):
        s = add_round_key(L['mix_columns'](L['shift_rows'](L['sub_bytes'](s))), _rk(w, r))
    return add_round_key(L['shift_rows'](L['sub_bytes'](s)), _rk(w, Nr))

def decrypt(key, block, L=None, KE=None):
    L = L or LAYERS
    w = (KE or key_expansion)(key); Nr = len(key) // 4 + 6
    s = add_round_key(list(block), _rk(w, Nr))
    for r in range(Nr - 1, 0, -1):
        s = L['inv_mix_columns'](add_round_key(L['inv_sub_bytes'](L['inv_shift_rows'](s)), _rk(w, r)))
    return add_round_key(L['inv_sub_bytes'](L['inv_shift_rows'](s)), _rk(w, 0))

LAYERS = {'sub_bytes': sub_bytes, 'inv_sub_bytes': inv_sub_bytes, 'shift_rows': shift_rows, 'inv_shift_rows': inv_shift_rows,
          'mix_columns': mix_columns, 'inv_mix_columns': inv_mix_columns}

# ---- state-level opaque versions of the layers and of the key expansion, for composition obligations
from pyvc.val import from_le, le_bytes
def _wrap(name, fn):
    op = Opaque('aes_' + name, lambda x: from_le(fn(le_bytes(x, 16))), [128], 128)
    return op, (lambda s: le_bytes(op(from_le(s)), 16))
OPL = {}; LAYERS_OPAQUE = {}
for _n, _f in list(LAYERS.items()):
    OPL[_n], LAYERS_OPAQUE[_n] = _wrap(_n, _f)
KEYEXP = {nk: Opaque('aes_keyexp%d' % nk, (lambda *k: tuple(b for w in key_expansion(list(k)) for b in w)), [8] * (4 * nk), (8,) * (16 * (nk + 7)))
          for nk in (4, 6, 8)}
def key_expansion_opaque(key):
    flat = KEYEXP[len(key) // 4](*key)
    return [list(flat[4 * i:4 * i + 4]) for i in range(len(flat) // 4)]
LAYER_NAMES = ['aes_' + n for n in LAYERS] + ['aes_keyexp4', 'aes_keyexp6', 'aes_keyexp8']
