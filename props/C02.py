# C02  AES, DES/TDEA, Serpent and Threefish encrypt exactly as standardized.
from pyvc.oblig import obligation
from pyvc import val
from pyvc.val import land, lor, lnot, mask
from spec import aes as A
import crysp.aes as aes
from crysp.poly import Poly
from crysp.bits import Bits
from props.aes_common import *

P = 'C02'

# =====================================================================  AES
@obligation(P, 'crysp.aes.gmul/post', cls='E', funcs=['crysp.aes.gmul'], domain={'a': range(256)},
            note='all 65536 pairs: gmul(a,b) == a*b modulo x^8+x^4+x^3+x+1')
def _(c):
    a = c.int('a', 0, 255)
    for b in range(256):
        c.ensure('gmul(%d,%d)' % (a, b), c.call(aes.gmul, a, b) == A._mulc(a, b))

@obligation(P, 'crysp.aes.Sbox/post', cls='E', funcs=['crysp.aes.Sbox', 'crysp.aes.Sbox_inv'], domain={},
            note='both 256-entry tables against the S-box computed from the field inverse and the affine map; Rcon entries used by the three key sizes')
def _(c):
    st = Poly(list(range(256)), 8)
    c.ensure('sbox', c.call(aes.Sbox, st).ival == A.SBOX)
    c.ensure('sbox_inv', c.call(aes.Sbox_inv, st).ival == A.SBOX_INV)
    c.ensure('ring', aes.AES.sboxtable.size == 8 and aes.AES.sboxinvtable.size == 8 and aes.AES.sboxtable.dim == 256 and aes.AES.sboxinvtable.dim == 256)
    c.ensure('rcon', list(aes.Rcon[1:11]) == A.RCON[1:11])

@obligation(P, 'crysp.aes.Sbox/symbolic', cls='L', funcs=['crysp.aes.Sbox', 'crysp.aes.Sbox_inv'])
def _(c):
    st = sym_state(c)
    r = c.call(aes.Sbox, st); ri = c.call(aes.Sbox_inv, st)
    c.ensure('sbox', land(val.eq(r.ival, [A.sbox(b) for b in st.ival]), r.size == 8))
    c.ensure('sbox_inv', land(val.eq(ri.ival, [A.sbox_inv(b) for b in st.ival]), ri.size == 8))

LAYERS = [('SubBytes', A.sub_bytes), ('InvSubBytes', A.inv_sub_bytes), ('ShiftRows', A.shift_rows), ('InvShiftRows', A.inv_shift_rows),
          ('MixColumns', A.mix_columns), ('InvMixColumns', A.inv_mix_columns)]

@obligation(P, 'crysp.aes.AES.layer/post', cls='L', opaque=AES_OPAQUE, cases={'layer': [n for n, _ in LAYERS]},
            funcs=['crysp.aes.AES.' + n for n, _ in LAYERS])
def _(c):
    name = c.case('layer'); spec = dict(LAYERS)[name]
    install_byte_contracts(c)
    a = aes.AES(bytes(16))
    st = sym_state(c); s0 = list(st.ival)
    c.call(getattr(aes.AES, name), a, st)
    c.ensure('state', val.eq(st.ival, spec(s0)))
    c.ensure('shape', land(len(st.ival) == 16, st.size == 8))

@obligation(P, 'crysp.aes.AES.AddRoundKey/post', cls='L', funcs=['crysp.aes.AES.AddRoundKey'])
def _(c):
    a = aes.AES(bytes(16))
    st = sym_state(c); s0 = list(st.ival)
    w = []
    for i in range(4):
        p = Poly([0] * 4, 8); p.ival = c.words('w%d' % i, 4, 8); w.append(p)
    k = [b for p in w for b in p.ival]
    c.call(aes.AES.AddRoundKey, a, st, w)
    c.ensure('state', val.eq(st.ival, A.add_round_key(s0, k)))
    c.ensure('key-unchanged', val.eq([b for p in w for b in p.ival], k))

@obligation(P, 'crysp.aes.AES.keyschedule/post', cls='L', opaque=AES_OPAQUE, cases={'nk': [4, 6, 8]},
            funcs=['crysp.aes.AES.keyschedule', 'crysp.aes.AES.__init__'])
def _(c):
    nk = c.case('nk')
    install_byte_contracts(c)
    a, key = mk_aes(c, nk)
    c.ensure('params', land(a.Nk == nk, a.Nr == nk + 6, a.Nb == 4))
    w = c.call(aes.AES.keyschedule, a)
    exp = A.key_expansion(list(key))
    c.ensure('count', len(w) == 4 * (nk + 7))
    c.ensure('words', val.eq([list(p.ival) for p in w], exp) if False else land(*[val.eq(list(p.ival), e) for p, e in zip(w, exp)]))
    w2 = c.call(aes.AES.keyschedule, a)
    c.ensure('cached-equal', land(*[val.eq(list(p.ival), e) for p, e in zip(w2, exp)]))

@obligation(P, 'crysp.aes.AES.enc-dec/post', cls='L', opaque=A.LAYER_NAMES, cases={'nk': [4, 6, 8], 'dir': ['enc', 'dec']}, timeout=120,
            funcs=['crysp.aes.AES.enc', 'crysp.aes.AES.dec'])
def _(c):
    # composition over the layer and key-schedule contracts: round order, round-key slices, round count, (de)serialisation
    nk, d = c.case('nk'), c.case('dir')
    install_layer_contracts(c, nk)
    a, key = mk_aes(c, nk)
    blk = c.bytes('B', 16)
    out = c.call(getattr(aes.AES, d), a, blk)
    exp = (A.encrypt if d == 'enc' else A.decrypt)(list(key), list(blk), A.LAYERS_OPAQUE, A.key_expansion_opaque)
    c.ensure('block', val.eq(out, exp))
    c.ensure('length', len(out) == 16)

@obligation(P, 'crysp.aes.AES/rejects', cls='B', bound='key lengths 0..40 bytes, block lengths 0..40 bytes (sizes concrete, contents arbitrary)',
            funcs=['crysp.aes.AES.__init__', 'crysp.aes.AES.enc', 'crysp.aes.AES.dec'], cases={'n': list(range(0, 41))})
def _(c):
    n = c.case('n')
    if n not in (16, 24, 32):
        c.raises('key-size', Exception, aes.AES, c.bytes('K', n))
    if n != 16:
        a = aes.AES(bytes(16))
        blk = c.bytes('B', n)
        c.raises('enc-block-size', Exception, aes.AES.enc, a, blk)
        c.raises('dec-block-size', Exception, aes.AES.dec, a, blk)
    c.ensure('nonvacuous', True)

@obligation(P, 'canary/aes-shiftrows', cls='L', canary=True, funcs=['crysp.aes.AES.ShiftRows'])
def _(c):
    a = aes.AES(bytes(16)); st = sym_state(c); s0 = list(st.ival)
    c.call(aes.AES.ShiftRows, a, st)
    c.ensure('canary', val.eq(st.ival, A.inv_shift_rows(s0)))

# =====================================================================  DES / TDEA
# ---------------------------------------------------------------- several cipher objects in one process (bounded, native)
@obligation(P, 'block-ciphers/keys-of-equal-integer-value', cls='B', native=True, bound='per cipher: keys of every admissible length whose bytes are all zero / end in 01 / start with 01 (equal as integers, different as keys), '
            'objects created and used in every order within one process; 3 blocks', cases={'cipher': ['AES', 'Serpent', 'Threefish', 'TDEA']},
            funcs=['crysp.aes.AES.__init__', 'crysp.aes.AES.keyschedule', 'crysp.aes.AES.enc', 'crysp.aes.AES.dec', 'crysp.serpent.Serpent.__init__', 'crysp.threefish.Threefish.__init__', 'crysp.des.TDEA.__init__'],
            note='"for every key" includes keys that differ only in length: a result must not depend on which other keys were used before in the same process')
def _(c):
    import itertools
    k = c.case('cipher')
    if k == 'AES':
        from spec import aes as SA
        mk = lambda key: aes.AES(key); ref = lambda key, b: bytes(SA.encrypt(list(key), list(b))); lens = (16, 24, 32); bs = 16
    elif k == 'Serpent':
        from spec import serpent as SS
        import crysp.serpent as serpent
        mk = lambda key: serpent.Serpent(key); ref = lambda key, b: bytes(SS.encrypt(key, b)); lens = (16, 24, 32); bs = 16
    elif k == 'Threefish':
        from spec import threefish as ST
        import crysp.threefish as threefish
        mk = lambda key: threefish.Threefish(key, bytes(16)); ref = lambda key, b: bytes(ST.encrypt(key, bytes(16), b)); lens = (32, 64, 128); bs = None
    else:
        from spec import des as SD
        import crysp.des as des
        def tdea_ref(key, b):
            k1, k2, k3 = (key[0:8], key[8:16], key[16:24]) if len(key) == 24 else (key[0:8], key[8:16], key[0:8])
            return bytes(SD.encrypt(k3, bytes(SD.decrypt(k2, bytes(SD.encrypt(k1, b))))))
        mk = lambda key: des.TDEA(key); ref = tdea_ref; lens = (16, 24); bs = 8
    for shape in ('zero', 'tail', 'head'):
        keys = [bytes(n) if shape == 'zero' else bytes(n - 1) + b'\x01' if shape == 'tail' else b'\x01' + bytes(n - 1) for n in lens]
        for order in itertools.permutations(range(len(keys))):
            for i in order:
                key = keys[i]; n = bs or len(key)
                o = mk(key)
                for blk in (bytes(n), bytes(range(n)), bytes([0xff] * n)):
                    ct = o.enc(blk)
                    c.ensure('%s/%s/order=%s/len=%d/enc' % (k, shape, ''.join(map(str, order)), len(key)), bytes(ct) == ref(key, blk))
                    c.ensure('%s/%s/order=%s/len=%d/dec' % (k, shape, ''.join(map(str, order)), len(key)), bytes(o.dec(ct)) == blk)

from spec import des as D
import crysp.des as des
from props.des_common import *

@obligation(P, 'crysp.des.S/post', cls='E', funcs=['crysp.des.S'], domain={}, note='all 8 x 64 S-box entries against FIPS 46-3 (row = bits 1,6; column = bits 2..5)')
def _(c):
    for n in range(8):
        for x in range(64):
            r = c.call(des.S, n, x)
            c.ensure('S%d[%d]' % (n + 1, x), r.ival == D.SBOX[n][x] and r.size == 4)
    for bad in ((8, 0), (-1, 0), (0, 64), (0, -1)):
        o = c.outcome(des.S, *bad)
        c.ensure('S%s rejected' % (bad,), o[0] == 'exc')

PERMS = {'IP': (des.IP, D.IP_T, 64), 'IPinv': (des.IPinv, D.IPINV_T, 64), 'PC1': (des.PC1, D.PC1_T, 64), 'PC2': (des.PC2, D.PC2_T, 56),
         'E': (des.E, D.E_T, 32), 'P': (des.P, D.P_T, 32)}
@obligation(P, 'crysp.des.perm/post', cls='L', cases={'name': list(PERMS)}, funcs=['crysp.des.' + n for n in PERMS])
def _(c):
    f, T, n = PERMS[c.case('name')]
    x = c.bits('x', n)
    r = c.call(f, x)
    c.ensure('bits', val.eq(r.ival, val.from_bits(D.perm(val.bits_of(x.ival, n), T))))
    c.ensure('size', r.size == len(T))
    if c.case('name') != 'PC1':
        c.raises('wrong-size', Exception, f, c.bits('y', n + 1))

@obligation(P, 'crysp.des.subkey/post', cls='L', cases={'r': list(range(16))}, funcs=['crysp.des.subkey'])
def _(c):
    r = c.case('r')
    k = c.bits('k', 56)
    sk = c.call(des.subkey, k, r)
    c.ensure('roundkey', land(val.eq(sk.ival, val.from_bits(D.round_key(val.bits_of(k.ival, 56), r))), sk.size == 48))

@obligation(P, 'crysp.des.F/post', cls='L', cases={'r': list(range(16))}, funcs=['crysp.des.F', 'crysp.des.subkey', 'crysp.des.E', 'crysp.des.P', 'crysp.des.S'], timeout=200)
def _(c):
    r = c.case('r')
    R = c.bits('R', 32); k = c.bits('k', 56)
    out = c.call(des.F, R, k, r)
    exp = D.f_bits(val.bits_of(R.ival, 32), D.round_key(val.bits_of(k.ival, 56), r))
    c.ensure('f', land(val.eq(out.ival, val.from_bits(exp)), out.size == 32))

@obligation(P, 'crysp.des.DES.enc-dec/post', cls='L', opaque=DES_F, cases={'dir': ['enc', 'dec']}, funcs=['crysp.des.DES.enc', 'crysp.des.DES.dec', 'crysp.des.DES.__init__'])
def _(c):
    install_F_contract(c)
    key = c.bytes('K', 8); blk = c.bytes('B', 8)
    d = c.call(des.DES, key)
    out = c.call(getattr(des.DES, c.case('dir')), d, blk)
    f = D.encrypt_bits if c.case('dir') == 'enc' else D.decrypt_bits
    exp = D.bits_to_bytes(f(D.bytes_to_bits(list(key)), D.bytes_to_bits(list(blk)), True))
    c.ensure('block', val.eq(out, exp))
    c.ensure('length', len(out) == 8)

@obligation(P, 'crysp.des.DES/rejects', cls='B', bound='key and block lengths 0..20 bytes', funcs=['crysp.des.DES.__init__', 'crysp.des.DES.enc', 'crysp.des.DES.dec'],
            cases={'n': [n for n in range(0, 21) if n != 8]})
def _(c):
    n = c.case('n')
    c.raises('key-size', Exception, des.DES, c.bytes('K', n))
    d = des.DES(bytes(8))
    c.raises('enc-block', Exception, des.DES.enc, d, c.bytes('B', n))
    c.raises('dec-block', Exception, des.DES.dec, d, c.bytes('C', n))

TDEA_FORMS = ['1x8', '1x16', '1x24', 'k1', 'k1,k2', 'k1,k2,k3']
@obligation(P, 'crysp.des.TDEA/post', cls='L', opaque=['des_enc', 'des_dec'], cases={'form': TDEA_FORMS, 'dir': ['enc', 'dec']},
            funcs=['crysp.des.TDEA.__init__', 'crysp.des.TDEA.enc', 'crysp.des.TDEA.dec'])
def _(c):
    install_DES_contract(c)
    form = c.case('form')
    ks = [c.bytes('K%d' % i, 8) for i in (1, 2, 3)]
    if form == '1x8': t = c.call(des.TDEA, ks[0]); k = (ks[0], ks[0], ks[0])
    elif form == '1x16': t = c.call(des.TDEA, ks[0] + ks[1]); k = (ks[0], ks[1], ks[0])
    elif form == '1x24': t = c.call(des.TDEA, ks[0] + ks[1] + ks[2]); k = tuple(ks)
    elif form == 'k1': t = c.call(des.TDEA, ks[0]); k = (ks[0], ks[0], ks[0])
    elif form == 'k1,k2': t = c.call(des.TDEA, ks[0], ks[1]); k = (ks[0], ks[1], ks[0])
    else: t = c.call(des.TDEA, ks[0], ks[1], ks[2]); k = tuple(ks)
    blk = c.bytes('B', 8)
    out = c.call(getattr(des.TDEA, c.case('dir')), t, blk)
    kk = [key_of_bytes(x) for x in k]; b = key_of_bytes(blk)
    if c.case('dir') == 'enc': exp = D.ENC(kk[2], D.DEC(kk[1], D.ENC(kk[0], b)))
    else: exp = D.DEC(kk[0], D.ENC(kk[1], D.DEC(kk[2], b)))
    c.ensure('block', val.eq(out, D.bits_to_bytes(val.bits_of(exp, 64))))
    c.ensure('length', len(out) == 8)

@obligation(P, 'crysp.des.TDEA/rejects', cls='B', bound='single key string lengths 0..40 bytes', funcs=['crysp.des.TDEA.__init__'],
            cases={'n': [n for n in range(0, 41) if n not in (8, 16, 24)]})
def _(c):
    c.raises('key-size', Exception, des.TDEA, c.bytes('K', c.case('n')))

# =====================================================================  Serpent
from spec import serpent as SP
import crysp.serpent as serpent
from props.sym_common import *

@obligation(P, 'crysp.serpent._S/post', cls='L', cases={'i': list(range(8)), 'inv': [0, 1]}, funcs=['crysp.serpent._S', 'crysp.serpent._Sinv', 'crysp.serpent._IP', 'crysp.serpent._FP'], timeout=200)
def _(c):
    i, inv = c.case('i'), c.case('inv')
    X = c.bits('X', 128)
    r = c.call(serpent._Sinv if inv else serpent._S, i, X)
    c.ensure('bitslice-sbox', land(val.eq(r.ival, (SP.sinv_layer if inv else SP.s_layer)(i, X.ival)), r.size == 128))

@obligation(P, 'crysp.serpent._L/post', cls='L', cases={'inv': [0, 1]}, funcs=['crysp.serpent._L', 'crysp.serpent._Linv'])
def _(c):
    X = c.bits('X', 128)
    r = c.call(serpent._Linv if c.case('inv') else serpent._L, X)
    c.ensure('linear', land(val.eq(r.ival, (SP.lt_inv if c.case('inv') else SP.lt)(X.ival)), r.size == 128))
    c.raises('wrong-size', Exception, serpent._L, c.bits('Y', 127))

@obligation(P, 'crysp.serpent.Serpent.__init__/post', cls='L', opaque=SP.NAMES, cases={'n': list(range(0, 33))}, funcs=['crysp.serpent.Serpent.__init__', 'crysp.serpent._keysched'], timeout=200,
            note='every key length 0..32 bytes: 1-bit-then-zero padding of short keys, prekey recurrence, round keys; key contents symbolic')
def _(c):
    install_serpent_contracts(c)
    key = c.bytes('K', c.case('n'))
    s = c.call(serpent.Serpent, key)
    exp = SP.round_keys(SP.pad_key(list(key)))
    c.ensure('count', len(s.keys) == 33)
    c.ensure('roundkeys', land(*[land(val.eq(k.ival, e), k.size == 128) for k, e in zip(s.keys, exp)]))

@obligation(P, 'crysp.serpent.Serpent.enc-dec/post', cls='L', opaque=SP.NAMES, cases={'dir': ['enc', 'dec']}, funcs=['crysp.serpent.Serpent.enc', 'crysp.serpent.Serpent.dec'])
def _(c):
    install_serpent_contracts(c)
    s = serpent.Serpent.__new__(serpent.Serpent)
    s.keys = [c.bits('k%d' % i, 128) for i in range(33)]
    blk = c.bytes('B', 16)
    out = c.call(getattr(serpent.Serpent, c.case('dir')), s, blk)
    x = val.from_le(list(blk)); K = [k.ival for k in s.keys]
    exp = SP.encrypt_rk(K, x) if c.case('dir') == 'enc' else SP.decrypt_rk(K, x)
    c.ensure('block', val.eq(out, val.le_bytes(exp, 16)))
    c.ensure('length', len(out) == 16)

@obligation(P, 'crysp.serpent.Serpent/rejects', cls='B', bound='key lengths 33..48 bytes, block lengths 0..40 bytes', funcs=['crysp.serpent.Serpent.__init__', 'crysp.serpent.Serpent.enc', 'crysp.serpent.Serpent.dec'],
            cases={'n': [n for n in range(0, 49) if n != 16]})
def _(c):
    n = c.case('n')
    if n > 32: c.raises('key-size', Exception, serpent.Serpent, c.bytes('K', n))
    if n <= 40:
        s = serpent.Serpent(bytes(16))
        c.raises('enc-block', Exception, serpent.Serpent.enc, s, c.bytes('B', n))
        c.raises('dec-block', Exception, serpent.Serpent.dec, s, c.bytes('C', n))
    c.ensure('nonvacuous', True)

# =====================================================================  Threefish
from spec import threefish as TF
import crysp.threefish as threefish

@obligation(P, 'crysp.threefish.Threefish.MIX/post', cls='L', cases={'nw': [4, 8, 16]}, funcs=['crysp.threefish.Threefish.__MIX', 'crysp.threefish.Threefish.__MIXinv'], timeout=200)
def _(c):
    nw = c.case('nw')
    t = threefish.Threefish(bytes(8 * nw), bytes(16))
    for d in range(8):
        for j in range(nw // 2):
            x0 = c.bits('x%d_%d' % (d, j), 64); x1 = c.bits('y%d_%d' % (d, j), 64)
            r = TF.R[nw][d][j]
            for dd in (d, d + 8, d + 64):
                y = c.call(threefish.Threefish._Threefish__MIX, t, x0, x1, dd, j)
                e = TF.mix(x0.ival, x1.ival, r)
                c.ensure('MIX d=%d j=%d' % (dd, j), land(val.eq(y[0].ival, e[0]), val.eq(y[1].ival, e[1]), y[0].size == 64, y[1].size == 64, len(y) == 2))
                z = c.call(threefish.Threefish._Threefish__MIXinv, t, x0, x1, dd, j)
                e = TF.mix_inv(x0.ival, x1.ival, r)
                c.ensure('MIXinv d=%d j=%d' % (dd, j), land(val.eq(z[0].ival, e[0]), val.eq(z[1].ival, e[1]), z[0].size == 64, z[1].size == 64, len(z) == 2))

@obligation(P, 'crysp.threefish.Threefish.__init__+ks/post', cls='L', cases={'nw': [4, 8, 16]}, funcs=['crysp.threefish.Threefish.__init__', 'crysp.threefish.Threefish.__ks'])
def _(c):
    nw = c.case('nw')
    key = c.bytes('K', 8 * nw); tw = c.bytes('T', 16)
    t = c.call(threefish.Threefish, key, tw)
    k = [val.from_le(list(key[8 * i:8 * i + 8])) for i in range(nw)]; tt = [val.from_le(list(tw[0:8])), val.from_le(list(tw[8:16]))]
    c.ensure('params', land(t.Nw == nw, t.Nr == (80 if nw == 16 else 72), c.getattr(t, 'blocksize') == 64 * nw))
    c.ensure('pi', tuple(t._Threefish__pi) == TF.PI[nw] and [t._Threefish__pi[i] for i in t._Threefish__piinv] == list(range(nw)))
    kw = TF.key_words(k)
    for s in range(0, t.Nr // 4 + 1):
        ks = c.call(threefish.Threefish._Threefish__ks, t, s)
        exp = TF.subkey(kw, tt, s)
        c.ensure('ks(%d)' % s, land(len(ks) == nw, *[land(val.eq(a.ival, e), a.size == 64) for a, e in zip(ks, exp)]))

@obligation(P, 'crysp.threefish.Threefish.enc-dec/post', cls='L', opaque=TF.NAMES, cases={'nw': [4, 8, 16], 'dir': ['enc', 'dec']}, funcs=['crysp.threefish.Threefish.enc', 'crysp.threefish.Threefish.dec'], timeout=200)
def _(c):
    nw = c.case('nw')
    install_threefish_contracts(c)
    key = c.bytes('K', 8 * nw); tw = c.bytes('T', 16); blk = c.bytes('B', 8 * nw)
    t = c.call(threefish.Threefish, key, tw)
    out = c.call(getattr(threefish.Threefish, c.case('dir')), t, blk)
    w = lambda bs: [val.from_le(list(bs[8 * i:8 * i + 8])) for i in range(len(bs) // 8)]
    f = TF.encrypt_words if c.case('dir') == 'enc' else TF.decrypt_words
    exp = f(w(key), w(tw), w(blk), True)
    c.ensure('block', val.eq(out, [b for x in exp for b in val.le_bytes(x, 8)]))
    c.ensure('length', len(out) == 8 * nw)

@obligation(P, 'crysp.threefish.Threefish/rejects', cls='B', bound='key lengths 0..136 bytes step 8 (+odd), tweak lengths 0..24, block lengths != key length', funcs=['crysp.threefish.Threefish.__init__', 'crysp.threefish.Threefish.enc', 'crysp.threefish.Threefish.dec'],
            cases={'n': [0, 1, 8, 16, 24, 31, 33, 40, 48, 56, 63, 65, 72, 96, 127, 129, 136]})
def _(c):
    n = c.case('n')
    c.raises('key-size', Exception, threefish.Threefish, c.bytes('K', n), bytes(16))
    if n != 16: c.raises('tweak-size', Exception, threefish.Threefish, bytes(32), c.bytes('T', n))
    for nw in (4, 8, 16):
        t = threefish.Threefish(bytes(8 * nw), bytes(16))
        c.raises('enc-block nw=%d' % nw, Exception, threefish.Threefish.enc, t, c.bytes('B%d' % nw, n))
        c.raises('dec-block nw=%d' % nw, Exception, threefish.Threefish.dec, t, c.bytes('C%d' % nw, n))
