# C12  Skein hash, MAC and tree hash equal the Skein 1.3 specification.
# Threefish is used through its contract (C02: Threefish.enc == specification): an uninterpreted function of (key, tweak, block).
from pyvc.oblig import obligation
from pyvc import val
from pyvc.val import land, lor, lnot, mask
from spec import skein as SK
import crysp.skein as skein, crysp.threefish as threefish
from crysp.bits import Bits

P = 'C12'
def install_threefish(c):
    def h(I, args, kw):
        self, M = args
        nw = self.Nw
        if isinstance(M, Bits): return NotImplemented
        if len(M) != 8 * nw: return NotImplemented
        out = SK.E[nw](self.K.ival, self.T.ival, val.from_le(list(M)))
        return (mkbytes(val.le_bytes(out, 8 * nw)),)
    c.replace(threefish.Threefish.enc, h)
def mkbytes(items):
    if any(getattr(x, '_sym', False) for x in items):
        from pyvc.sbytes import from_items
        return from_items(items)
    return bytes(items)

FIELDS = {'Position': (0, 96), 'TreeLevel': (112, 119), 'BitPad': (119, 120), 'First': (126, 127), 'Final': (127, 128)}
@obligation(P, 'Tweak.fields/post', cls='L', funcs=['crysp.skein.Tweak.' + f for f in FIELDS] + ['crysp.skein.Tweak.Type', 'crysp.skein.Tweak.__init__'], max_paths=20000,
            note='for EVERY 128-bit tweak and every field value: a setter changes exactly its field, a getter reads exactly its field')
def _(c):
    for name, (lo, hi) in FIELDS.items():
        t = skein.Tweak(); t.ival = c.word('t_' + name, 128); t0 = t.ival
        v = c.word('v_' + name, hi - lo)
        c.ensure(name + '/get', val.eq(c.getattr(t, name), (t0 >> lo) & mask(hi - lo)))
        c.setattr(t, name, v)
        c.ensure(name + '/set', val.eq(t.ival, (t0 & ~(mask(hi - lo) << lo) & mask(128)) | (v << lo)))
        c.ensure(name + '/size', t.size == 128)
    for typ, code in SK.TYPES.items():
        t = skein.Tweak(); t.ival = c.word('t_' + typ, 128); t0 = t.ival
        c.setattr(t, 'Type', typ)
        c.ensure('Type=%s' % typ, val.eq(t.ival, (t0 & ~(mask(6) << 120) & mask(128)) | (code << 120)))
    t = c.call(skein.Tweak, Type='msg', TreeLevel=3)
    c.ensure('constructor', t.ival == SK.tweak(level=3) and t.size == 128)

def _ubi_cases(tier):
    out = []
    for Nb in (32, 64, 128):
        for n in sorted({0, 1, Nb - 1, Nb, Nb + 1, 2 * Nb, 2 * Nb + 5} if tier == 'quick' else set(range(0, 3 * Nb + 2, 3)) | {Nb - 1, Nb, Nb + 1, 2 * Nb}):
            for r in ((0, 1, 7) if n in (1, Nb, Nb + 1) or tier != 'quick' else (0,)):
                if n == 0 and r: continue
                out.append({'Nb': Nb, 'n': n, 'r': r})
    return out
@obligation(P, 'UBI.__call__/bounded', cls='B', opaque=SK.NAMES, cases=_ubi_cases, timeout=200, funcs=['crysp.skein.UBI.__init__', 'crysp.skein.UBI.__call__', 'crysp.skein.UBI.iterblocks'],
            bound='message lengths 0..2 blocks+5 (every residue up to 3 blocks in the thorough tier), bit residues {0,1,7}; chaining value, contents and the START POSITION of the tweak (any value below 2^96 - message length) symbolic')
def _(c):
    Nb, n, r = c.case('Nb'), c.case('n'), c.case('r')
    install_threefish(c)
    G = c.bytes('G', Nb); M = c.bytes('M', n)
    pos = c.int('pos', 0, (1 << 96) - 1 - max(n, 1) - Nb)
    L = 8 * n - ((8 - r) % 8)
    Ts = skein.Tweak(Type='msg', TreeLevel=2); Ts.Position = 0
    Ts.ival = Ts.ival | pos
    u = c.call(skein.UBI, threefish.Threefish, G, Ts)
    out = c.call(skein.UBI.__call__, u, M, **({'bitlen': L} if r else {}))
    exp = SK.ubi(list(G), list(M), SK.tweak(level=2) | pos, L if r else None)
    c.ensure('chaining', val.eq(out, exp)); c.ensure('length', len(out) == Nb)
    c.ensure('caller-tweak-unchanged', val.eq(Ts.ival, SK.tweak(level=2) | pos))

# ---------------------------------------------------------------- UBI: the two loops, one step from an ARBITRARY state (class I)
@obligation(P, 'UBI.iterblocks/loop-step', cls='I', cases={'Nb': [32, 64, 128]}, funcs=['crysp.skein.UBI.iterblocks', 'crysp.skein.Tweak.Position', 'crysp.skein.Tweak.First'],
            note='one iteration of the block loop for EVERY tweak value (position below 2^96 - block, any flags, any type/level) and every block: '
                 'the block is handed out with the tweak whose position has advanced by one block and whose other fields are unchanged; afterwards only the First flag is cleared')
def _(c):
    if c.mode == 'sym': from pyvc.sbytes import SBytesIO
    Nb = c.case('Nb')
    t0 = c.word('tweak', 128)
    pos = t0 & mask(96)
    c.assume(pos + Nb < (1 << 96))
    blk = c.bytes('block', Nb)
    u = skein.UBI(threefish.Threefish, bytes(Nb), skein.Tweak(Type='msg'))
    Ts = skein.Tweak(); Ts.ival = t0
    Pm = SBytesIO(blk) if c.mode == 'sym' else __import__('io').BytesIO(bytes(blk))
    ys, loc = c.loop_body(skein.UBI.iterblocks, 0, {'self': u, 'M': None, 'bitlen': None, 'B': 0, 'l': None, 'lb': Nb, 'nb': None, 'rb': None, 'lp': 0, 'P': Pm, 'Ts': Ts, 'b': 0})
    c.ensure('one-block', len(ys) == 1)
    T1 = (t0 & ~mask(96) & mask(128)) | (pos + Nb)
    c.ensure('tweak-handed-out', val.eq(list(ys[0][0]), val.le_bytes(T1, 16)))
    c.ensure('block-handed-out', val.eq(list(ys[0][1]), list(blk)))
    c.ensure('tweak-after', land(val.eq(loc['Ts'].ival, T1 & ~(1 << 126) & mask(128)), loc['Ts'].size == 128))

@obligation(P, 'UBI.__call__/loop-step', cls='I', opaque=SK.NAMES, cases={'Nb': [32, 64, 128]}, funcs=['crysp.skein.UBI.__call__', 'crysp.mode.Mode.xorstr', 'crysp.threefish.Threefish.__init__'],
            note='one iteration of the chaining loop for EVERY chaining value, tweak and block: H\' = Threefish(H, T).enc(m) xor m (Threefish through its contract, C02)')
def _(c):
    Nb = c.case('Nb'); nw = Nb // 8
    install_threefish(c)
    H = c.bytes('H', Nb); T = c.bytes('T', 16); m = c.bytes('m', Nb)
    u = skein.UBI(threefish.Threefish, bytes(Nb), skein.Tweak(Type='msg'))
    ys, loc = c.loop_body(skein.UBI.__call__, 0, {'self': u, 'M': None, 'bitlen': None, 'H': H, 'T': T, 'm': m})
    exp = SK.E[nw](val.from_le(list(H)), val.from_le(list(T)), val.from_le(list(m))) ^ val.from_le(list(m))
    c.ensure('chaining-step', val.eq(list(loc['H']), val.le_bytes(exp, Nb)))
    c.ensure('length', len(loc['H']) == Nb)

def _sk_cases(tier):
    out = []
    for Nb in (256, 512, 1024):
        for No in ((8, Nb, Nb + 8) if tier == 'quick' else (8, 200, Nb, Nb + 8, 2 * Nb, 2 * Nb + 16, 4 * Nb)):
            for n in ((0, 1, Nb // 8 + 1) if tier == 'quick' else (0, 1, Nb // 8 - 1, Nb // 8, Nb // 8 + 1, 3 * Nb // 8)):
                for opt in ('plain', 'key', 'emptykey', 'longkey+all'):
                    if tier == 'quick' and opt != 'plain' and (No != Nb or n != 1): continue
                    out.append({'Nb': Nb, 'No': No, 'n': n, 'opt': opt})
    return out
@obligation(P, 'Skein.__call__/bounded', cls='B', opaque=SK.NAMES, cases=_sk_cases, timeout=300,
            funcs=['crysp.skein.Skein.__init__', 'crysp.skein.Skein._initstate', 'crysp.skein.Skein.update', 'crysp.skein.Skein.output', 'crysp.skein.Skein.__call__'],
            bound='state sizes 256/512/1024; output lengths incl. longer than the state; message lengths {0,1,block+1} (+more thorough); key absent/empty/short/longer than a block with prs/PK/kdf/nonce; contents symbolic; bit length residue 5 on the 1-byte message')
def _(c):
    Nb, No, n, opt = c.case('Nb'), c.case('No'), c.case('n'), c.case('opt')
    install_threefish(c)
    M = c.bytes('M', n)
    kw = {}
    if opt == 'key': kw = {'key': c.bytes('K', 5)}
    elif opt == 'emptykey': kw = {'key': b''}
    elif opt == 'longkey+all': kw = {'key': c.bytes('K', Nb // 8 + 3), 'prs': c.bytes('prs', 2), 'PK': c.bytes('PK', 3), 'kdf': c.bytes('kdf', 1), 'nonce': c.bytes('non', 9)}
    h = c.call(skein.Skein, Nb, No, **kw)
    out = c.call(skein.Skein.__call__, h, M)
    skw = {k: list(v) for k, v in kw.items()}
    c.ensure('output', val.eq(out, SK.skein(Nb, No, list(M), None, **skw)))
    c.ensure('length', len(out) == -(-No // 8))
    if n == 1:
        out = c.call(skein.Skein.__call__, h, M, 5)
        c.ensure('bitlen=5', val.eq(out, SK.skein(Nb, No, list(M), 5, **skw)))
        out = c.call(skein.Skein.__call__, h, M, 8)
        c.ensure('bitlen=8', val.eq(out, SK.skein(Nb, No, list(M), 8, **skw)))

def _tree_cases(tier):
    out = []
    shapes = [(1, 1, 2), (1, 2, 3), (2, 1, 3), (1, 1, 4), (3, 3, 2)] if tier == 'quick' else [(a, b, m) for a in (1, 2, 3) for b in (1, 2, 3) for m in (2, 3, 4)]
    for sh in shapes:
        for n in ((1, 33, 65, 200) if tier == 'quick' else (1, 31, 32, 33, 64, 65, 129, 200, 257, 700)):
            out.append({'shape': '%d,%d,%d' % sh, 'n': n})
    return out
@obligation(P, 'Skein.tree/bounded', cls='B', opaque=SK.NAMES, cases=_tree_cases, timeout=300, funcs=['crysp.skein.Skein._treehash', 'crysp.skein.Skein.update'],
            bound='Skein-256 with 5 tree shapes (27 thorough), message lengths 1..200 bytes (..700 thorough); contents symbolic')
def _(c):
    Yl, Yf, Ym = (int(x) for x in c.case('shape').split(',')); n = c.case('n')
    install_threefish(c)
    M = c.bytes('M', n)
    h = c.call(skein.Skein, 256, 256, Yl=Yl, Yf=Yf, Ym=Ym)
    out = c.call(skein.Skein.__call__, h, M)
    c.ensure('tree-hash', val.eq(out, SK.skein(256, 256, list(M), Yl=Yl, Yf=Yf, Ym=Ym)))

@obligation(P, 'Skein.tree/bitlen-and-empty', cls='B', native=True, bound='tree mode with an explicit bit length, and the empty message', funcs=['crysp.skein.Skein._treehash'])
def _(c):
    h = skein.Skein(256, 256, Yl=1, Yf=1, Ym=2)
    o = c.outcome(h, b'')
    c.ensure('empty message hashes', o[0] == 'ok' and o[1] == bytes(SK.skein(256, 256, [], Yl=1, Yf=1, Ym=2)))
    m = bytes(range(70))
    c.ensure('bit length honoured', h(m, 8 * 70 - 3) != h(m))

@obligation(P, 'Skein/library-threefish', cls='B', native=True, bound='Skein 1.3 appendix C vectors through the real Threefish', funcs=['crysp.skein.Skein.__call__'])
def _(c):
    V = [(256, 256, "FF", "0B98DCD198EA0E50A7A244C444E25C23DA30C10FC9A1F270A6637F1F34E67ED2"), (256, 256, "", "C8877087DA56E072870DAA843F176E9453115929094C3A40C463A196C29BF7BA"),
         (512, 512, "FF", "71B7BCE6FE6452227B9CED6014249E5BF9A9754C3AD618CCC4E0AAE16B316CC8CA698D864307ED3E80B6EF1570812AC5272DC409B5A012DF2A579102F340617A")]
    for a, b, m, hx in V:
        c.ensure('vector %d/%d/%s' % (a, b, m), skein.Skein(a, b)(bytes.fromhex(m)).hex().upper() == hx and bytes(SK.skein(a, b, list(bytes.fromhex(m)))).hex().upper() == hx)

@obligation(P, 'canary/ubi-final', cls='L', canary=True, opaque=SK.NAMES, funcs=['crysp.skein.UBI.iterblocks'])
def _(c):
    install_threefish(c)
    G = c.bytes('G', 32); M = c.bytes('M', 3)
    u = c.call(skein.UBI, threefish.Threefish, G, skein.Tweak(Type='msg'))
    out = c.call(skein.UBI.__call__, u, M)
    blk = val.from_le(list(M) + [0] * 29)
    c.ensure('canary', val.eq(out, val.le_bytes(SK.E[4](val.from_le(list(G)), SK.tweak(position=3, first=1), blk) ^ blk, 32)))
