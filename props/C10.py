# C10  One-shot results depend only on the arguments, never on earlier calls.
# Two layers:
#  (1) state havoc (symbolic, DESIGN.md 5/C10): the mutable fields of the object are set to ARBITRARY values of their type
#      before the call; the result must still equal the specification of (constructor arguments, call arguments).
#      By induction over the history this is the property for every history that only changes those fields.
#  (2) history enumeration (native, class B): every sequence of up to 3 calls over a per-kind alphabet (other options, other
#      inputs, calls that raise, sibling instances, module-level singletons) followed by the probe call, compared with a
#      freshly constructed object -- this also sees state the havoc does not know about (new caches, class attributes).
import itertools
from pyvc.oblig import obligation
from pyvc import val
from pyvc.val import land, lor, lnot, mask
import crysp.sha as sha, crysp.md as md, crysp.blake as blake, crysp.keccak as keccak, crysp.skein as skein, crysp.hmac as chmac
import crysp.tlsh as tlsh, crysp.nilsimsa as nilsimsa, crysp.aes as aes, crysp.des as des, crysp.serpent as serpent, crysp.threefish as threefish
import crysp.mode as mode, crysp.salsa20 as salsa20, crysp.chacha as chacha, crysp.rc4 as rc4, crysp.crc as crc, crysp.padding as pad
from crysp.bits import Bits
from crysp.poly import Poly
from spec import sha as S, blake as B
import props.C01 as C1, props.C11 as C11

P = 'C10'

# ------------------------------------------------------------------ (1) state havoc
@obligation(P, 'havoc/sha-md', cls='B', opaque=C1.CNAMES, bound='message lengths {0,3,64,70} bytes; ALL values of the chaining state, bit counter and pad flag before the call',
            cases={'alg': list(C1.ALGS), 'n': [0, 3, 64, 70]}, funcs=['crysp.sha.SHA1.__call__', 'crysp.md.MD4.__call__', 'crysp.sha.SHA1.initstate', 'crysp.sha.SHA2.initstate', 'crysp.md.MD4.initstate'], timeout=200)
def _(c):
    a, n = c.case('alg'), c.case('n')
    mk, w, nh, little, comp = C1.ALGS[a]
    h = mk(); C1.install_update_contract(c, h, a)
    for i in range(nh):
        b = Bits(0, w); b.ival = c.word('H%d' % i, w); h.H[i] = b
    h.padmethod.bitcnt = c.int('bitcnt', 0, 1 << 70); h.padmethod.padcnt = c.int('padcnt', 0, 1 << 20)
    h.padmethod.padflag = True
    M = c.bytes('M', n)
    out = c.call(type(h).__call__, h, M)
    c.ensure('digest', val.eq(out, C1.spec_hash(a, M, 8 * n)))
    c.ensure('configuration-unchanged', land(h.blocksize == 16 * w, h.wsize == w))

@obligation(P, 'havoc/blake', cls='B', opaque=B.NAMES, bound='message lengths {0,5,64}; all values of H, salt words, counters, flags before the call', cases={'size': [224, 256, 384, 512], 'n': [0, 5, 64]},
            funcs=['crysp.blake.Blake.__call__', 'crysp.blake.Blake.initstate'], timeout=200)
def _(c):
    size, n = c.case('size'), c.case('n'); w = 32 if size <= 256 else 64
    h = blake.Blake(size); h.initstate(123)
    C11.install_blake_loop(c, h, 'blake')
    h.H = C11.mkpoly(c.words('H', 8, w), w); h.salt = C11.mkpoly(c.words('s', 4, w), w)
    h.padmethod.bitcnt = c.int('bitcnt', 0, 1 << 70); h.padmethod.padflag = True
    M = c.bytes('M', n); salt = c.int('salt', 0, (1 << (4 * w)) - 1)
    out = c.call(blake.Blake.__call__, h, M, salt)
    c.ensure('digest', val.eq(out, B.blake(size, list(M), 8 * n, salt, True)))

@obligation(P, 'havoc/blake2', cls='B', opaque=B.NAMES, bound='message lengths {0,5,130}; all values of H, counter, flags, previous per-call parameters before the call', cases={'size': [256, 512], 'n': [0, 5, 130]},
            funcs=['crysp.blake.Blake2.__call__', 'crysp.blake.Blake2.initstate'], timeout=200)
def _(c):
    size, n = c.case('size'), c.case('n'); w = 64 if size == 512 else 32
    h = blake.Blake2(size); h.initstate(outlen=7, fanout=9, depth=3, inner=2)
    C11.install_blake_loop(c, h, 'blake2')
    h.H = C11.mkpoly(c.words('H', 8, w), w); h.f = C11.mkpoly(c.words('f', 2, w), w)
    h.padmethod.bitcnt = c.int('bitcnt', 0, 1 << 60) * 8; h.padmethod.padflag = True; h.bitcnt = c.int('cnt', 0, 1 << 60)
    M = c.bytes('M', n)
    out = c.call(blake.Blake2.__call__, h, M)
    c.ensure('digest', val.eq(out, B.blake2(w, list(M), size // 8, True)))
    c.ensure('default-outlen', h.outlen == size // 8)

# ------------------------------------------------------------------ (1b) one-shot from ANY state, for EVERY message (class L)
# Every attribute that a history can change -- computed from the current AST by pyvc.frame: all names that any method other
# than __init__ assigns / augments / stores into / mutates, and sub-objects with such state -- is set to an arbitrary value of
# its shape.  The message is abstract (arbitrary length and content).  update() is replaced by a probe that records the
# object's state and its arguments: the one-shot call must reach it in exactly the state of a freshly constructed object
# (after the same reset), with the caller's message and padding=True, and return what it returns.  Hence
# result(history; M) == result(fresh; M) for every history that acts through these attributes and every M.
from pyvc import frame
MARK = b'\xa5\x5a\xc3'
ONESHOT = {
    'SHA1': (lambda: sha.SHA1(), {}), 'SHA0': (lambda: sha.SHA1(0), {}), 'SHA224': (lambda: sha.SHA2(224), {}), 'SHA256': (lambda: sha.SHA2(256), {}), 'SHA384': (lambda: sha.SHA2(384), {}),
    'SHA512': (lambda: sha.SHA2(512), {}), 'SHA512/256': (lambda: sha.SHA2(512, 256), {}), 'MD4': (lambda: md.MD4(), {}), 'MD5': (lambda: md.MD5(), {}),
    'Blake224': (lambda: blake.Blake(224), {}), 'Blake256': (lambda: blake.Blake(256), {}), 'Blake384': (lambda: blake.Blake(384), {}), 'Blake512': (lambda: blake.Blake(512), {}),
    'Blake256+salt': (lambda: blake.Blake(256), {'s': 0x1234567}),
    'Blake2s': (lambda: blake.Blake2(256), {}), 'Blake2b': (lambda: blake.Blake2(512), {}), 'Blake2b+options': (lambda: blake.Blake2(512), {'outlen': 20, 'salt': b'ab', 'pers': b'xyz', 'fanout': 2, 'depth': 3, 'leafl': 5, 'noffset': 7, 'ndepth': 1, 'inner': 9}),
}
@obligation(P, 'reset/one-shot-from-any-state', cls='L', sufficient=True, cases={'kind': list(ONESHOT)}, funcs=['crysp.sha.SHA1.__call__', 'crysp.sha.SHA1.initstate', 'crysp.sha.SHA2.initstate', 'crysp.md.MD4.__call__', 'crysp.md.MD4.initstate',
            'crysp.blake.Blake.__call__', 'crysp.blake.Blake.initstate', 'crysp.blake.Blake2.__call__', 'crysp.blake.Blake2.initstate', 'crysp.blake.Blake2.paramblock', 'crysp.blake.Blake2.treeinit'],
            note='ALL values of every attribute a history can change (set computed from the AST), abstract message of arbitrary length: update() is entered in the fresh object\'s state with the caller\'s arguments; '
                 'not covered: changes of the SHAPE of an attribute (list length, Bits size), module-level or class-level state (left to history/enumeration)')
def _(c):
    mk, kw = ONESHOT[c.case('kind')]
    h = mk(); fresh = mk()
    # the previous call may have used other per-call options
    if isinstance(h, blake.Blake2): h.initstate(outlen=7, fanout=9, depth=3, inner=2, salt=b'zz')
    elif isinstance(h, blake.Blake): h.initstate(99)
    if c.mode != 'sym':
        done, kept = frame.havoc(c, h)
        M = c.tail('M')
        c.ensure('digest', h(M, **kw) == fresh(M, **kw)); return
    done, kept = frame.havoc(c, h)
    c.note('havocked', done, kept)
    seen = {}
    def probe(I, args, k):
        seen['state'] = frame.state_of(args[0]); seen['args'] = (args[1:], dict(k)); return (MARK,)
    c.replace(type(h).update, probe)
    M = c.tail('M')
    out = c.call(type(h).__call__, h, M, **kw)
    # the reference: a freshly constructed object after the reset the one-shot call performs
    if isinstance(fresh, blake.Blake2): fresh.initstate(**kw)
    elif isinstance(fresh, blake.Blake): fresh.initstate(kw.get('s', 0))
    else: fresh.initstate()
    c.ensure('update-reached', 'state' in seen)
    if 'state' not in seen: return
    c.ensure('state-at-update == fresh', frame.same(seen['state'], frame.state_of(fresh)), difference=frame.diff(seen['state'], frame.state_of(fresh)))
    import inspect
    a, k = seen['args']
    bound = inspect.signature(type(fresh).update).bind(fresh, *a, **k); bound.apply_defaults()
    c.ensure('message-passed-on', bound.arguments.get('M') is M)
    c.ensure('padding', bound.arguments.get('padding') is True)
    if 'bitlen' in bound.arguments: c.ensure('no-bit-length', bound.arguments['bitlen'] is None)
    c.ensure('result-returned', out is MARK or out == MARK)
    c.ensure('havoc-not-empty', len(done) >= 2)

class _Done:
    def digest(self): return MARK
@obligation(P, 'reset/similarity-digests-from-any-state', cls='L', sufficient=True, cases={'kind': ['Nilsimsa', 'TLSH128', 'TLSH256/3']},
            funcs=['crysp.nilsimsa.Nilsimsa.__call__', 'crysp.nilsimsa.Nilsimsa.reset', 'crysp.tlsh.TLSH.__call__', 'crysp.tlsh.TLSH.reset'],
            note='as reset/one-shot-from-any-state: ALL values of every attribute a history can change, abstract input of arbitrary length; the first routine that looks at the data is entered in the fresh object\'s state')
def _(c):
    k = c.case('kind')
    mk = (lambda: nilsimsa.Nilsimsa()) if k == 'Nilsimsa' else (lambda: tlsh.TLSH(128)) if k == 'TLSH128' else (lambda: tlsh.TLSH(256, chklen=3))
    h = mk(); fresh = mk()
    if c.mode != 'sym':
        frame.havoc(c, h); M = c.tail('M') * 5
        c.ensure('digest', h(M) == fresh(M)); return
    done, kept = frame.havoc(c, h)
    seen = {}
    def probe(I, args, kw):
        seen['state'] = frame.state_of(args[0]); seen['args'] = (args[1:], dict(kw))
        return (_Done() if k == 'Nilsimsa' else None,)
    c.replace(nilsimsa.Nilsimsa.update if k == 'Nilsimsa' else tlsh.TLSH.final, probe)
    M = c.tail('M')
    out = c.call(type(h).__call__, h, M)
    fresh.reset()
    c.ensure('entered', 'state' in seen)
    if 'state' not in seen: return
    c.ensure('state-at-entry == fresh', frame.same(seen['state'], frame.state_of(fresh)), difference=frame.diff(seen['state'], frame.state_of(fresh)))
    c.ensure('data-passed-on', seen['args'][0][0] is M)
    c.ensure('result', (out == MARK) if k == 'Nilsimsa' else out is None)
    c.ensure('havoc-not-empty', len(done) >= 3)

@obligation(P, 'reset/skein-from-any-state', cls='L', sufficient=True, opaque=['threefish*'], cases={'kind': ['plain256', 'key512', 'all1024']}, funcs=['crysp.skein.Skein.__call__', 'crysp.skein.Skein._initstate', 'crysp.skein.Skein.update', 'crysp.skein.Skein.output'],
            note='ALL values of the chaining value G before the call, abstract message of arbitrary length: the message stage is entered with the chaining value of a fresh object, and the output stage runs on what it leaves')
def _(c):
    import props.C12 as C12
    k = c.case('kind')
    mk = {'plain256': lambda: skein.Skein(256, 256), 'key512': lambda: skein.Skein(512, 384, key=b'secret'), 'all1024': lambda: skein.Skein(1024, 1024, key=b'k' * 9, prs=b'prs', PK=b'pk', kdf=b'kdf', nonce=b'nonce')}[k]
    h = mk(); fresh = mk()
    h(b'previous message')
    if c.mode != 'sym':
        frame.havoc(c, h); M = c.tail('M')
        c.ensure('digest', h(M) == fresh(M)); return
    C12.install_threefish(c)
    done, kept = frame.havoc(c, h)
    seen = {}
    def probe(I, args, kw):
        if (args[2] if len(args) > 2 else kw.get('T', 'msg')) != 'msg': return NotImplemented
        seen['state'] = frame.state_of(args[0]); seen['args'] = (args[1:], dict(kw))
        return (None,)
    c.replace(skein.Skein.update, probe)
    M = c.tail('M')
    out = c.call(skein.Skein.__call__, h, M)
    c.call(skein.Skein._initstate, fresh)
    c.ensure('entered', 'state' in seen)
    if 'state' not in seen: return
    c.ensure('state-at-message-stage == fresh', frame.same(seen['state'], frame.state_of(fresh)))
    c.ensure('message-passed-on', seen['args'][0][0] is M)
    c.ensure('output-of-that-state', val.eq(out, c.call(skein.Skein.output, fresh, fresh.G)))
    c.ensure('havoc-not-empty', 'G' in done)

STATELESS = {'DES': lambda: des.DES(b'12345678'), 'TDEA': lambda: des.TDEA(bytes(range(24))), 'Serpent': lambda: serpent.Serpent(b'k' * 16),
             'Threefish': lambda: threefish.Threefish(bytes(32), bytes(16))}
@obligation(P, 'frame/no-state-to-change', cls='L', sufficient=True, cases={'kind': list(STATELESS)}, funcs=['crysp.des.DES.enc', 'crysp.des.TDEA.enc', 'crysp.serpent.Serpent.enc', 'crysp.threefish.Threefish.enc'],
            note='frame condition read off the current AST: no method other than __init__ (of the class or its repository bases) assigns, augments, stores into or calls a mutating method on any attribute of self, '
                 'and no attribute holds a repository object with such state -- so a call cannot depend on earlier calls on the instance; module-level and class-level state is left to history/enumeration')
def _(c):
    kind = c.case('kind'); o = STATELESS[kind]()
    if c.mode != 'sym':
        # replay of a failed frame condition: the property itself on a seeded random history
        import random
        k = kinds()[kind]; rng = random.Random(c.int('history', 0, 1 << 30))
        for a in [rng.randrange(len(k['alphabet'])) for _ in range(4)]: run(k['alphabet'][a], o)
        for pi, probe in enumerate(k['probe']):
            c.ensure('probe %d' % pi, val_digest(run(probe, o)) == val_digest(run(probe, k['make']())))
        return
    c.int('history', 0, 1 << 30)
    c.ensure('no-attribute-written-outside-__init__', sorted(frame.mutable_attrs(type(o))) == [], written=sorted(frame.mutable_attrs(type(o))))
    c.ensure('no-stateful-sub-object', [a for a, v in vars(o).items() if frame.has_mutable_state(v)] == [])
    c.ensure('has-attributes', len(vars(o)) >= 1)

# ------------------------------------------------------------------ (2) history enumeration
def kinds():
    K = {}
    m1, m2 = b'abc', bytes(range(70))
    def hashkind(mk, extra=()):
        return {'make': mk, 'probe': [lambda o: o(m1), lambda o: o(m2)],
                'alphabet': [lambda o: o(m2), lambda o: o(b''), lambda o: o(m1, bitlen=999999), lambda o: o.update(bytes(64 if o.blocksize == 512 else 128)) if hasattr(o, 'update') else None] + list(extra)}
    K['SHA1'] = hashkind(lambda: sha.SHA1()); K['SHA0'] = hashkind(lambda: sha.SHA1(0))
    K['SHA256'] = hashkind(lambda: sha.SHA2(256), [lambda o: o(m1, bitlen=17)]); K['SHA512/256'] = hashkind(lambda: sha.SHA2(512, 256))
    K['MD4'] = hashkind(lambda: md.MD4()); K['MD5'] = hashkind(lambda: md.MD5(), [lambda o: o(m1, bitlen=9)])
    K['SHA3'] = {'make': lambda: sha.SHA3(256), 'probe': [lambda o: o(m1), lambda o: o(m2)], 'alphabet': [lambda o: o(m2), lambda o: o(b''), lambda o: o(5), lambda o: keccak.Keccak.__call__(o, m1, 7, 576), lambda o: o.duplex(b'ab', 11)]}
    K['Keccak'] = {'make': lambda: keccak.Keccak(b=200, r=72, len=80), 'probe': [lambda o: o(m1), lambda o: o(m2, 13), lambda o: o(m1, r=40)],
                   'alphabet': [lambda o: o(m2, r=40), lambda o: o(m1, 999), lambda o: o(m1, 3), lambda o: o.duplex(b'x', 3), lambda o: o(m1, r=2000)]}
    K['keccak_256'] = {'make': lambda: keccak.keccak_256, 'fresh': lambda: keccak.Keccak(b=1600, c=512, len=256), 'probe': [lambda o: o(m1)], 'alphabet': [lambda o: o(m2, r=576), lambda o: o(m1, 12), lambda o: keccak.keccak_512(m2)]}
    K['MD6'] = {'make': lambda: md.MD6(64, b'k', 1), 'probe': [lambda o: o(m1), lambda o: o(m2)], 'alphabet': [lambda o: o(m2), lambda o: o(b''), lambda o: o(m1, 5)]}
    K['Blake'] = {'make': lambda: blake.Blake(256), 'probe': [lambda o: o(m1), lambda o: o(m2, 7)], 'alphabet': [lambda o: o(m2, 5), lambda o: o(m1, bitlen=9), lambda o: o(m1, bitlen=99999), lambda o: o.update(bytes(64))]}
    K['blake512'] = {'make': lambda: blake.blake512, 'fresh': lambda: blake.Blake(512), 'probe': [lambda o: o(m1)], 'alphabet': [lambda o: o(m2, 77), lambda o: blake.blake256(m1), lambda o: o(m1, bitlen=3)]}
    K['Blake2'] = {'make': lambda: blake.Blake2(512), 'probe': [lambda o: o(m1), lambda o: o(m2, outlen=20)], 'alphabet': [lambda o: o(m2, outlen=5, fanout=3, depth=2, leafl=9, noffset=4, ndepth=1, inner=7), lambda o: o(m1, salt=b's' * 16), lambda o: o(m1, outlen=99), lambda o: o.update(bytes(128))]}
    K['blake2s'] = {'make': lambda: blake.blake2s, 'fresh': lambda: blake.Blake2(256), 'probe': [lambda o: o(m1)], 'alphabet': [lambda o: o(m2, outlen=3, pers=b'p' * 8), lambda o: blake.blake2b(m1, outlen=9), lambda o: o(m1, outlen=0)]}
    K['Skein'] = {'make': lambda: skein.Skein(256, 384, key=b'k'), 'probe': [lambda o: o(m1), lambda o: o(m2, 13)], 'alphabet': [lambda o: o(m2), lambda o: o(m1, 3), lambda o: o(b'')]}
    K['HMAC'] = {'make': lambda: chmac.HMAC(sha.SHA2(256), b'key'), 'probe': [lambda o: o(m1)], 'alphabet': [lambda o: o(m2), lambda o: (o.setkey(b'x' * 100), o.setkey(b'key')), lambda o: o.h(m2)]}
    K['TLSH'] = {'make': lambda: tlsh.TLSH(128), 'probe': [lambda o: o(bytes(range(256)) * 2), lambda o: o(b'short')], 'alphabet': [lambda o: o(bytes(300)), lambda o: o(b'tiny'), lambda o: o(bytes(range(200)) * 3, True), lambda o: o.update(bytes(range(100)))]}
    K['tlsh'] = {'make': lambda: tlsh.tlsh, 'fresh': lambda: tlsh.TLSH(128), 'probe': [lambda o: o(bytes(range(256)) * 2)], 'alphabet': [lambda o: o(b'tiny'), lambda o: o(bytes(range(7, 250)) * 4), lambda o: o.from_hash(bytes(35))]}
    K['Nilsimsa'] = {'make': lambda: nilsimsa.Nilsimsa(), 'probe': [lambda o: o(m2)], 'alphabet': [lambda o: o(m1), lambda o: o.update(m1), lambda o: o(b'')]}
    blk16, blk8 = bytes(range(16)), bytes(range(8))
    def cipherkind(mk, blk): return {'make': mk, 'probe': [lambda o: o.enc(blk), lambda o: o.dec(blk)], 'alphabet': [lambda o: o.enc(bytes(len(blk))), lambda o: o.dec(blk[::-1]), lambda o: o.enc(blk + b'x')]}
    K['AES'] = cipherkind(lambda: aes.AES(bytes(16)), blk16)
    K['AES-siblings'] = {'make': lambda: aes.AES(bytes(16)), 'probe': [lambda o: o.enc(blk16)], 'alphabet': [lambda o: aes.AES(bytes(32)).enc(blk16), lambda o: aes.AES(bytes(24)).dec(blk16), lambda o: aes.AES(bytes(15) + b'\x01').enc(blk16)]}
    K['AES-created-after-siblings'] = {'make': lambda: None, 'probe': [lambda o: aes.AES(bytes(16)).enc(blk16), lambda o: aes.AES(bytes(15) + b'\x01').dec(blk16), lambda o: aes.AES(bytes(24)).enc(blk16)],
                                       'alphabet': [lambda o: aes.AES(bytes(32)).enc(blk16), lambda o: aes.AES(bytes(24)).dec(blk16), lambda o: aes.AES(bytes(16)).enc(blk16), lambda o: aes.AES(bytes(15) + b'\x01' + bytes(16)).enc(blk16)]}
    K['DES'] = cipherkind(lambda: des.DES(b'12345678'), blk8); K['TDEA'] = cipherkind(lambda: des.TDEA(bytes(range(24))), blk8)
    K['Serpent'] = cipherkind(lambda: serpent.Serpent(b'k' * 16), blk16); K['Threefish'] = cipherkind(lambda: threefish.Threefish(bytes(32), bytes(16)), bytes(range(32)))
    def modekind(mk): return {'make': mk, 'probe': [lambda o: o.enc(m2), lambda o: o.dec(type(o).enc(mk(), m2))], 'alphabet': [lambda o: o.enc(m1), lambda o: o.enc(b''), lambda o: o.dec(b'123'), lambda o: o.dec(o.enc(bytes(32)))]}
    K['ECB'] = modekind(lambda: mode.ECB(aes.AES(bytes(16)))); K['CBC'] = modekind(lambda: mode.CBC(aes.AES(bytes(16)), bytes(range(16))))
    K['CTR'] = modekind(lambda: mode.CTR(aes.AES(bytes(16)), bytes(15) + b'\xfe'))
    K['CTS_CBC'] = {'make': lambda: mode.CTS_CBC(des.DES(b'12345678'), bytes(8)), 'probe': [lambda o: o.enc(m2)], 'alphabet': [lambda o: o.enc(bytes(20)), lambda o: o.enc(b'1'), lambda o: o.dec(bytes(30))]}
    v = Bits(0x0102030405060708, 64)
    K['Salsa20'] = {'make': lambda: salsa20.Salsa20(Bits(7, 256), 12), 'probe': [lambda o: o.enc(v, m2)], 'alphabet': [lambda o: o.enc(Bits(5, 64), bytes(200)), lambda o: o.enc(v, b''), lambda o: o.enc(Bits(1, 63), m1), lambda o: salsa20.Salsa20().hash(bytes(64))]}
    K['Chacha'] = {'make': lambda: chacha.Chacha(Bits(9, 128), 8), 'probe': [lambda o: o.enc(v, m2)], 'alphabet': [lambda o: o.enc(Bits(5, 64), bytes(130)), lambda o: o.dec(v, b'z'), lambda o: o.enc(m1, m1)]}
    K['crc32'] = {'make': lambda: crc, 'fresh': lambda: crc, 'probe': [lambda o: o.crc32(m2), lambda o: o.crc32_fix(m2, 0x1234)], 'alphabet': [lambda o: o.crc32(m1), lambda o: o.crc_table(Bits(0x8C, 8)), lambda o: o.crc32_fix_pos(m2, 3, 77), lambda o: o.crc32_fix(b'ab', 5)]}
    return K

def run(f, o):
    try: return ('ok', f(o))
    except BaseException as e: return ('exc', type(e).__name__)

@obligation(P, 'history/enumeration', cls='B', native=True, cases=lambda tier: [{'kind': k} for k in kinds()], bound='every sequence of 0..3 calls (0..2 in the quick tier) over a per-kind alphabet of 3-5 calls incl. raising calls, other options, sibling instances and module singletons, then each probe call; compared with a fresh object',
            funcs=['crysp.sha.SHA1.__call__', 'crysp.keccak.Keccak.__call__', 'crysp.blake.Blake2.__call__', 'crysp.mode.ECB.enc', 'crysp.mode.CBC.enc', 'crysp.mode.CTR.enc', 'crysp.aes.AES.enc', 'crysp.tlsh.TLSH.__call__', 'crysp.hmac.HMAC.__call__'])
def _(c):
    k = kinds()[c.case('kind')]
    depth = 2 if c.mode == 'concrete' and False else 2
    import os
    depth = 3 if os.environ.get('VERIF_TIER') == 'thorough' else 2
    fresh = k.get('fresh', k['make'])
    for pi, probe in enumerate(k['probe']):
        digest = in_child(lambda: val_digest(run(probe, fresh())))          # the reference: a fresh object in a fresh process
        for n in range(0, depth + 1):
            for seq in itertools.product(range(len(k['alphabet'])), repeat=n):
                def history():
                    o = k['make']()
                    for a in seq: run(k['alphabet'][a], o)
                    return val_digest(run(probe, o))
                c.ensure('%s: probe %d after %s' % (c.case('kind'), pi, list(seq)), in_child(history) == digest)

def in_child(fn):
    """run fn in a forked child so that module-level and class-level state written by one history cannot reach another"""
    import os, pickle
    r, w = os.pipe()
    pid = os.fork()
    if pid == 0:
        try:
            os.close(r)
            try: out = ('ok', fn())
            except BaseException as e: out = ('crash', repr(e))
            with os.fdopen(w, 'wb') as f: pickle.dump(out, f)
        finally:
            os._exit(0)
    os.close(w)
    with os.fdopen(r, 'rb') as f: data = f.read()
    os.waitpid(pid, 0)
    return pickle.loads(data)

def val_digest(r):
    st, v = r
    if st == 'exc': return ('exc', v)
    if isinstance(v, (bytes, int, type(None), str)): return ('ok', v)
    return ('ok', type(v).__name__)

@obligation(P, 'canary/ctr-counter', cls='E', canary=True, domain={}, funcs=['crysp.mode.CTR.enc'])
def _(c):
    o = mode.CTR(aes.AES(bytes(16)), bytes(16))
    a = o.enc(bytes(40)); o.counter.reset(); o.counter()
    c.ensure('canary', mode.Mode.xorstr(o, bytes(16), o._cipher.enc(o.counter())) == a[:16])
