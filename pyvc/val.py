# Value helpers usable by specifications and obligation bodies in BOTH modes:
# natively on Python ints (replay under /venv/bin/python, no z3 there) and on the
# engine's symbolic values.  Nothing here imports z3 unless a symbolic value shows up.

def _is_sym(x):
    return getattr(x, '_sym', False)

def ite(c, a, b):
    if _is_sym(c):
        from . import sym
        return sym.ite(c, a, b)
    return a if c else b

def land(*cs):
    if any(_is_sym(c) for c in cs):
        from . import sym
        return sym.land(*cs)
    return all(bool(c) for c in cs)

def lor(*cs):
    if any(_is_sym(c) for c in cs):
        from . import sym
        return sym.lor(*cs)
    return any(bool(c) for c in cs)

def lnot(c):
    if _is_sym(c):
        from . import sym
        return sym.lnot(c)
    return not c

def implies(a, b):
    return lor(lnot(a), b)

def select(table, idx):
    """table[idx] for a concrete table and an int-like index known to be in range"""
    if _is_sym(idx):
        from . import sym
        return sym.select(list(table), idx)
    return table[idx]

def eq(a, b):
    """structural equality of ints / byte strings / lists / tuples of int-likes -> bool-like"""
    if isinstance(a, (list, tuple)) or isinstance(b, (list, tuple)):
        a = list(a); b = list(b)
        if len(a) != len(b): return False
        return land(*[eq(x, y) for x, y in zip(a, b)])
    ba = isinstance(a, (bytes, bytearray)) or type(a).__name__ == 'SBytes'
    bb = isinstance(b, (bytes, bytearray)) or type(b).__name__ == 'SBytes'
    if ba or bb:
        if not (ba and bb): return False
        if len(a) != len(b): return False
        return land(*[eq(x, y) for x, y in zip(tuple(a), tuple(b))])
    if a is None or b is None: return a is b
    r = (a == b)
    return r

def bit(x, i):
    return (x >> i) & 1

def bits_of(x, n):
    """LSB-first list of the n low bits of a non-negative int-like"""
    return [(x >> i) & 1 for i in range(n)]

def from_bits(bs):
    """integer whose bit i is bs[i]"""
    v = 0
    for i in range(len(bs) - 1, -1, -1):
        v = (v << 1) | bs[i]
    return v

def popcount(x, n):
    r = 0
    for i in range(n): r = r + ((x >> i) & 1)
    return r

def mask(n): return (1 << n) - 1

def rol(x, k, n):
    k %= n
    if k == 0: return x & mask(n)
    return ((x << k) | (x >> (n - k))) & mask(n)

def ror(x, k, n):
    return rol(x, (n - k) % n, n)

def be_bytes(x, n):
    """n bytes, big-endian, of a non-negative int-like < 2^(8n)"""
    return [(x >> (8 * (n - 1 - i))) & 0xff for i in range(n)]

def le_bytes(x, n):
    return [(x >> (8 * i)) & 0xff for i in range(n)]

def from_be(bs):
    v = 0
    for b in bs: v = (v << 8) | b
    return v

def from_le(bs):
    v = 0
    for b in reversed(list(bs)): v = (v << 8) | b
    return v

def rev8(b):
    """bit reversal of a byte"""
    if _is_sym(b):
        from . import sym
        return sym.rev8(b)
    r = 0
    for i in range(8): r = r | (((b >> i) & 1) << (7 - i))
    return r

# ---------------------------------------------------------------------------
# Opaque specification functions.  A spec function registered here is, inside the
# obligation that proves the contract OF the code it specifies, evaluated by its
# executable body; in every other obligation that names it in `opaque=` it is an
# uninterpreted function, so that a caller's proof rests on the callee's contract only.
OPAQUES = {}
ACTIVE = set()        # names that are uninterpreted in the obligation being generated

def is_active(name):
    """is the spec function `name` uninterpreted in the obligation being generated?  entries ending in '*' are prefixes"""
    if name in ACTIVE: return True
    for p in ACTIVE:
        if p.endswith('*') and name.startswith(p[:-1]): return True
    return False

class Opaque:
    def __init__(self, name, impl, arg_bits, out_bits):
        self.name = name; self.impl = impl; self.arg_bits = arg_bits; self.out_bits = out_bits
        OPAQUES[name] = self
    def __call__(self, *args):
        # uninterpreted in this obligation: EVERY application (also on constants) is the same UF, on the code
        # side and on the spec side alike -- mixing UF(c) with the computed value f(c) would be unsound
        if is_active(self.name):
            from . import symctx
            return symctx.uf_apply(self, args)
        return self.impl(*args)

def _flat(args):
    for a in args:
        if isinstance(a, (list, tuple)):
            for x in _flat(a): yield x
        else: yield a

def opaque(name, arg_bits, out_bits):
    """decorator: arg_bits = list of bit widths of the flattened integer arguments,
    out_bits = width of the result, or a tuple of widths for a tuple result"""
    def deco(fn):
        return Opaque(name, fn, arg_bits, out_bits)
    return deco

class WordFn:
    """a family of spec functions on w-bit words, e.g. Ch(w; x,y,z): opaque per width when named in `opaque=`"""
    def __init__(self, name, nargs, impl, out=None):
        self.name = name; self.nargs = nargs; self.impl = impl; self.out = out
        self._ops = {}
    def __call__(self, w, *args):
        if is_active(self.name):
            op = self._ops.get(w)
            if op is None:
                op = self._ops[w] = Opaque('%s_%d' % (self.name, w), lambda *a: self.impl(w, *a), [w] * self.nargs, self.out(w) if self.out else w)
                ACTIVE.add(op.name)
            return op(*args)
        return self.impl(w, *args)
