#!/usr/bin/env python3-vt
# tools/diffgoal.py <prop> <instance-regex> : show the first structural difference of the first goal the rewriter cannot close
import sys, re
sys.path.insert(0, '/verif'); sys.path.insert(0, '/repo'); sys.setrecursionlimit(50000)
import z3
from pyvc import oblig, symctx, val, contracts as CT
from pyvc.interp import Interp
from pyvc.sym import bterm
prop, pat = sys.argv[1], sys.argv[2]
def diff(a, b, depth=0, path=''):
    if a.eq(b): return None
    if a.decl().kind() != b.decl().kind() or a.num_args() != b.num_args() or depth > 300 or a.decl().name() != b.decl().name():
        return (path[-200:], str(a)[:500].replace('\n', ' '), '  ||||  ', str(b)[:500].replace('\n', ' '))
    for i, (x, y) in enumerate(zip(a.children(), b.children())):
        r = diff(x, y, depth + 1, path + '/%s.%d' % (a.decl().name(), i))
        if r: return r
    return (path[-200:], 'decl params differ', str(a.decl()), str(b.decl()))
def conj(t):
    if z3.is_and(t):
        for c in t.children(): yield from conj(c)
    else: yield t
for ob in oblig.load(prop):
    for iid, case in ob.instances('quick'):
        if not re.search(pat, iid): continue
        I = Interp(); I.contracts.update(CT.resolve(ob.use, ob.funcs)); val.ACTIVE = set(ob.opaque); symctx.INVERSES.clear()
        c = symctx.SymCtx(I, case); ob.fn(c)
        for l, g in c.goals:
            if isinstance(g, bool): continue
            for t in conj(bterm(g)):
                ts = z3.simplify(t)
                if z3.is_true(ts): continue
                print('GOAL', l, 'not closed by rewriter')
                if z3.is_eq(ts):
                    print(diff(ts.arg(0), ts.arg(1)))
                else: print(str(ts)[:600])
                sys.exit(0)
        print('all goals closed by rewriter')
