#!/bin/sh
# validate every sub-agent seed on a scratch copy of /repo HEAD: applies?, tests pass with it?, demo fails with it?, demo passes without it?
for d in /tmp/wt/C*/_seed/*; do
  p=$(echo $d | sed 's#/tmp/wt/\(C[0-9]*\)/_seed/\([0-9]\)#\1/\2#')
  s=$(mktemp -d /tmp/vs.XXXXXX); git -C /repo archive HEAD | tar -x -C $s
  clean=$(cd $s && PYTHONDONTWRITEBYTECODE=1 timeout 600 /venv/bin/python $d/demo.py >/dev/null 2>&1; echo $?)
  if (cd $s && patch -s -p1 < $d/patch.diff >/dev/null 2>&1); then ap=ok; else ap=REJECT; fi
  if [ $ap = ok ]; then
    t=$(cd $s && PYTHONDONTWRITEBYTECODE=1 timeout 900 /venv/bin/python -m pytest -q -p no:cacheprovider --timeout=900 2>&1 | tail -1)
    mut=$(cd $s && PYTHONDONTWRITEBYTECODE=1 timeout 600 /venv/bin/python $d/demo.py >/dev/null 2>&1; echo $?)
  else t=-; mut=-; fi
  echo "$p apply=$ap demo_clean_rc=$clean demo_mut_rc=$mut tests='$t'"
  rm -rf $s
done
