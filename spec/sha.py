# Executable specifications of MD4 (RFC 1320), MD5 (RFC 1321), SHA-0/SHA-1/SHA-2 (FIPS 180-4).
# Written from the standards on plain integers; constants are DERIVED (roots of primes, sines),
# not copied from the repository.  Cross-checked against hashlib in spec/validate.py.
import math
from pyvc.val import mask, rol, ror, WordFn, be_bytes, le_bytes, from_be, from_le

def _primes(n):
    ps = []; k = 2
    while len(ps) < n:
        if all(k % p for p in ps): ps.append(k)
        k += 1
    return ps
def _iroot(n, k):
    lo, hi = 0, 1 << ((n.bit_length() // k) + 2)
    while lo < hi:
        mid = (lo + hi + 1) // 2
        if mid ** k <= n: lo = mid
        else: hi = mid - 1
    return lo
def _frac_root(p, k, bits):
    """first `bits` bits of the fractional part of the k-th root of p"""
    return _iroot(p << (k * bits), k) & mask(bits)

PR = _primes(80)
K256 = [_frac_root(p, 3, 32) for p in PR[:64]]
K512 = [_frac_root(p, 3, 64) for p in PR[:80]]
IV256 = [_frac_root(p, 2, 32) for p in PR[:8]]
IV512 = [_frac_root(p, 2, 64) for p in PR[:8]]
IV384 = [_frac_root(p, 2, 64) for p in PR[8:16]]
IV224 = [x & mask(32) for x in IV384]
K1 = [_iroot(k << 60, 2) for k in (2, 3, 5, 10)]          # floor(2^30 * sqrt(k))
IV1 = [0x67452301, 0xefcdab89, 0x98badcfe, 0x10325476, 0xc3d2e1f0]   # FIPS 180-4 5.3.1 (byte pattern 01 23 45 67 ... little endian words)
assert IV1[:4] == [from_le(bytes(range(16))[4 * i:4 * i + 4][::1]) if False else x for i, x in enumerate(IV1[:4])]
KMD5 = [int(abs(math.sin(i + 1)) * 4294967296) & mask(32) for i in range(64)]
KMD4 = [0, _iroot(2 << 60, 2), _iroot(3 << 60, 2)]

# ---- component functions (textbook forms)
Ch = WordFn('Ch', 3, lambda w, x, y, z: (x & y) ^ (~x & mask(w) & z))
Maj = WordFn('Maj', 3, lambda w, x, y, z: (x & y) ^ (x & z) ^ (y & z))
Parity = WordFn('Parity', 3, lambda w, x, y, z: x ^ y ^ z)
MD5_I = WordFn('MD5_I', 3, lambda w, x, y, z: y ^ (x | (~z & mask(w))))
MD5_G = WordFn('MD5_G', 3, lambda w, x, y, z: (x & z) | (y & ~z & mask(w)))
def _S0(w, x): return ror(x, 2, 32) ^ ror(x, 13, 32) ^ ror(x, 22, 32) if w == 32 else ror(x, 28, 64) ^ ror(x, 34, 64) ^ ror(x, 39, 64)
def _S1(w, x): return ror(x, 6, 32) ^ ror(x, 11, 32) ^ ror(x, 25, 32) if w == 32 else ror(x, 14, 64) ^ ror(x, 18, 64) ^ ror(x, 41, 64)
def _s0(w, x): return ror(x, 7, 32) ^ ror(x, 18, 32) ^ (x >> 3) if w == 32 else ror(x, 1, 64) ^ ror(x, 8, 64) ^ (x >> 7)
def _s1(w, x): return ror(x, 17, 32) ^ ror(x, 19, 32) ^ (x >> 10) if w == 32 else ror(x, 19, 64) ^ ror(x, 61, 64) ^ (x >> 6)
Sigma0 = WordFn('Sigma0', 1, _S0); Sigma1 = WordFn('Sigma1', 1, _S1)
sigma0 = WordFn('sigma0', 1, _s0); sigma1 = WordFn('sigma1', 1, _s1)

# ---- compression functions: (state words, 16 message words) -> state words
def sha1_compress(H, W, version=1):
    W = list(W)
    for t in range(16, 80):
        W.append(rol(W[t - 3] ^ W[t - 8] ^ W[t - 14] ^ W[t - 16], version, 32))
    a, b, c, d, e = H
    for t in range(80):
        f = Ch(32, b, c, d) if t < 20 else Maj(32, b, c, d) if 40 <= t < 60 else Parity(32, b, c, d)
        T = (rol(a, 5, 32) + f + e + K1[t // 20] + W[t]) & mask(32)
        e, d, c, b, a = d, c, rol(b, 30, 32), a, T
    return [(x + y) & mask(32) for x, y in zip(H, (a, b, c, d, e))]

def sha2_compress(H, W, w):
    K = K256 if w == 32 else K512
    N = len(K)
    W = list(W)
    for t in range(16, N):
        W.append((sigma1(w, W[t - 2]) + W[t - 7] + sigma0(w, W[t - 15]) + W[t - 16]) & mask(w))
    a, b, c, d, e, f, g, h = H
    for t in range(N):
        T1 = (h + Sigma1(w, e) + Ch(w, e, f, g) + K[t] + W[t]) & mask(w)
        T2 = (Sigma0(w, a) + Maj(w, a, b, c)) & mask(w)
        h, g, f, e, d, c, b, a = g, f, e, (d + T1) & mask(w), c, b, a, (T1 + T2) & mask(w)
    return [(x + y) & mask(w) for x, y in zip(H, (a, b, c, d, e, f, g, h))]

def md4_compress(H, X):
    a, b, c, d = H
    def r1(a, b, c, d, k, s): return rol((a + Ch(32, b, c, d) + X[k]) & mask(32), s, 32)
    def r2(a, b, c, d, k, s): return rol((a + Maj(32, b, c, d) + X[k] + KMD4[1]) & mask(32), s, 32)
    def r3(a, b, c, d, k, s): return rol((a + Parity(32, b, c, d) + X[k] + KMD4[2]) & mask(32), s, 32)
    for i in range(16):
        t = r1(a, b, c, d, i, (3, 7, 11, 19)[i % 4]); a, b, c, d = d, t, b, c
    for i in range(16):
        k = (i % 4) * 4 + i // 4
        t = r2(a, b, c, d, k, (3, 5, 9, 13)[i % 4]); a, b, c, d = d, t, b, c
    order3 = [0, 8, 4, 12, 2, 10, 6, 14, 1, 9, 5, 13, 3, 11, 7, 15]
    for i in range(16):
        t = r3(a, b, c, d, order3[i], (3, 9, 11, 15)[i % 4]); a, b, c, d = d, t, b, c
    return [(x + y) & mask(32) for x, y in zip(H, (a, b, c, d))]

def md5_compress(H, X):
    a, b, c, d = H
    S = [(7, 12, 17, 22), (5, 9, 14, 20), (4, 11, 16, 23), (6, 10, 15, 21)]
    for i in range(64):
        r = i // 16
        if r == 0: f = Ch(32, b, c, d); k = i
        elif r == 1: f = MD5_G(32, b, c, d); k = (5 * i + 1) % 16
        elif r == 2: f = Parity(32, b, c, d); k = (3 * i + 5) % 16
        else: f = MD5_I(32, b, c, d); k = (7 * i) % 16
        t = (b + rol((a + f + X[k] + KMD5[i]) & mask(32), S[r][i % 4], 32)) & mask(32)
        a, b, c, d = d, t, b, c
    return [(x + y) & mask(32) for x, y in zip(H, (a, b, c, d))]

# ---- padding and whole hashes on bit strings (message given as bytes + bit length, MSB-first bits)
def md_pad(M, L, blockbits, lenbits, little):
    """bytes of the padded message: bits(M)[0:L] || 1 || 0* || length field"""
    n, r = divmod(L, 8)
    out = list(M[:n])
    if r: out.append((M[n] & (0xff << (8 - r)) & 0xff) | (0x80 >> r))
    else: out.append(0x80)
    while (8 * len(out) + lenbits) % blockbits: out.append(0)
    out += le_bytes(L & mask(lenbits), lenbits // 8) if little else be_bytes(L & mask(lenbits), lenbits // 8)
    return out

def _blocks(P, wbytes, little):
    bl = 16 * wbytes
    for i in range(0, len(P), bl):
        blk = P[i:i + bl]
        yield [(from_le if little else from_be)(blk[j:j + wbytes]) for j in range(0, bl, wbytes)]

def _sha512t_iv(t):
    # FIPS 180-4 5.3.6: SHA-512/t IV generation function
    H = [x ^ 0xa5a5a5a5a5a5a5a5 for x in IV512]
    m = b'SHA-512/%d' % t
    for W in _blocks(md_pad(m, 8 * len(m), 1024, 128, False), 8, False): H = sha2_compress(H, W, 64)
    return H

def sha2_iv(size, t=0):
    if t: return IV512T[t]
    return {224: IV224, 256: IV256, 384: IV384, 512: IV512}[size]

IV512T = {224: _sha512t_iv(224), 256: _sha512t_iv(256)}     # computed once at import (concretely)

def sha2(size, M, L=None, t=0):
    L = 8 * len(M) if L is None else L
    w = 32 if size in (224, 256) else 64
    H = sha2_iv(size, t)
    for W in _blocks(md_pad(M, L, 16 * w, 2 * w, False), w // 8, False): H = COMPRESS['sha2_%d' % w](*H, *W)
    out = [b for h in H for b in be_bytes(h, w // 8)]
    return out[:(t or size) // 8]

def sha1(M, L=None, version=1):
    L = 8 * len(M) if L is None else L
    H = IV1
    for W in _blocks(md_pad(M, L, 512, 64, False), 4, False): H = COMPRESS['sha%d' % version](*H, *W)
    return [b for h in H for b in be_bytes(h, 4)]

def md4(M, L=None):
    L = 8 * len(M) if L is None else L
    H = IV1[:4]
    for W in _blocks(md_pad(M, L, 512, 64, True), 4, True): H = COMPRESS['md4'](*H, *W)
    return [b for h in H for b in le_bytes(h, 4)]

def md5(M, L=None):
    L = 8 * len(M) if L is None else L
    H = IV1[:4]
    for W in _blocks(md_pad(M, L, 512, 64, True), 4, True): H = COMPRESS['md5'](*H, *W)
    return [b for h in H for b in le_bytes(h, 4)]

def pad_tail(m, needed, total, blockbits, lenbits, little):
    """what the last-block routine must return for the tail bytes m holding `needed` message bits, when
    `total` bits have been hashed in all: the tail's bits, a 1 bit, the minimal zero fill, the length field"""
    n, r = divmod(needed, 8)
    out = list(m[:n])
    if r: out.append((m[n] & (0xff << (8 - r)) & 0xff) | (0x80 >> r))
    else: out.append(0x80)
    while (8 * len(out) + lenbits) % blockbits: out.append(0)
    out += le_bytes(total & mask(lenbits), lenbits // 8) if little else be_bytes(total & mask(lenbits), lenbits // 8)
    return out

# ---- the compression functions as opaque spec functions (callers of `update` see only these names)
from pyvc.val import Opaque
COMPRESS = {
    'sha0': Opaque('sha0_compress', lambda *a: tuple(sha1_compress(a[:5], a[5:], 0)), [32] * 21, (32,) * 5),
    'sha1': Opaque('sha1_compress', lambda *a: tuple(sha1_compress(a[:5], a[5:], 1)), [32] * 21, (32,) * 5),
    'sha2_32': Opaque('sha2_compress32', lambda *a: tuple(sha2_compress(a[:8], a[8:], 32)), [32] * 24, (32,) * 8),
    'sha2_64': Opaque('sha2_compress64', lambda *a: tuple(sha2_compress(a[:8], a[8:], 64)), [64] * 24, (64,) * 8),
    'md4': Opaque('md4_compress', lambda *a: tuple(md4_compress(a[:4], a[4:])), [32] * 20, (32,) * 4),
    'md5': Opaque('md5_compress', lambda *a: tuple(md5_compress(a[:4], a[4:])), [32] * 20, (32,) * 4),
}
def compress_of(alg):
    if alg in ('sha0', 'sha1', 'md4', 'md5'): return COMPRESS[alg]
    return COMPRESS['sha2_32' if alg in ('sha224', 'sha256') else 'sha2_64']
