# BLAKE (SHA-3 final-round submission) and BLAKE2 (RFC 7693) on plain integers.  Constants are derived: the BLAKE
# constants are the leading fractional bits of pi (computed here), IVs are those of SHA-2 (spec.sha, roots of primes).
from pyvc.val import mask, ror, Opaque, be_bytes, le_bytes, from_be, from_le
from spec import sha as S

def _pi_frac_bits(n):
    """first n fractional bits of pi (Machin's formula in integer arithmetic)"""
    prec = n + 64
    one = 1 << prec
    def arctan_inv(x):
        total = term = one // x; x2 = x * x; k = 3; sign = -1
        while term:
            term //= x2; total += sign * (term // k); sign = -sign; k += 2
        return total
    pi = 4 * (4 * arctan_inv(5) - arctan_inv(239))
    return (pi >> 64) & ((1 << n) - 1) if False else ((pi - 3 * one) >> 64) & ((1 << n) - 1)
_PI = _pi_frac_bits(1024)
C512 = [(_PI >> (64 * (15 - i))) & mask(64) for i in range(16)]
C256 = [(_PI >> (1024 - 32 * (i + 1))) & mask(32) for i in range(16)]
SIGMA = [[0, 1, 2, 3, 4, 5, 6, 7, 8, 9, 10, 11, 12, 13, 14, 15], [14, 10, 4, 8, 9, 15, 13, 6, 1, 12, 0, 2, 11, 7, 5, 3],
         [11, 8, 12, 0, 5, 2, 15, 13, 10, 14, 3, 6, 7, 1, 9, 4], [7, 9, 3, 1, 13, 12, 11, 14, 2, 6, 5, 10, 4, 0, 15, 8],
         [9, 0, 5, 7, 2, 4, 10, 15, 14, 1, 11, 12, 6, 8, 3, 13], [2, 12, 6, 10, 0, 11, 8, 3, 4, 13, 7, 5, 15, 14, 1, 9],
         [12, 5, 1, 15, 14, 13, 4, 10, 0, 7, 6, 3, 9, 2, 8, 11], [13, 11, 7, 14, 12, 1, 3, 9, 5, 0, 15, 4, 8, 6, 2, 10],
         [6, 15, 14, 9, 11, 3, 0, 8, 12, 2, 13, 7, 1, 4, 10, 5], [10, 2, 8, 4, 7, 6, 1, 5, 15, 11, 9, 14, 3, 12, 13, 0]]
IDX = [(0, 4, 8, 12), (1, 5, 9, 13), (2, 6, 10, 14), (3, 7, 11, 15), (0, 5, 10, 15), (1, 6, 11, 12), (2, 7, 8, 13), (3, 4, 9, 14)]
def iv(size): return {224: S.IV224, 256: S.IV256, 384: S.IV384, 512: S.IV512}[size]

def blake_compress(w, h, m, s, t):
    """w: word size 32/64; h: 8 words; m: 16 words; s: 4 salt words; t: bit counter (integer)"""
    c = C256 if w == 32 else C512
    rot = (16, 12, 8, 7) if w == 32 else (32, 25, 16, 11)
    M = mask(w)
    t0, t1 = t & M, (t >> w) & M
    v = list(h) + [s[i] ^ c[i] for i in range(4)] + [t0 ^ c[4], t0 ^ c[5], t1 ^ c[6], t1 ^ c[7]]
    for r in range(14 if w == 32 else 16):
        sg = SIGMA[r % 10]
        for i, (ja, jb, jc, jd) in enumerate(IDX):
            a, b, cc, d = v[ja], v[jb], v[jc], v[jd]
            a = (a + b + (m[sg[2 * i]] ^ c[sg[2 * i + 1]])) & M; d = ror(d ^ a, rot[0], w)
            cc = (cc + d) & M; b = ror(b ^ cc, rot[1], w)
            a = (a + b + (m[sg[2 * i + 1]] ^ c[sg[2 * i]])) & M; d = ror(d ^ a, rot[2], w)
            cc = (cc + d) & M; b = ror(b ^ cc, rot[3], w)
            v[ja], v[jb], v[jc], v[jd] = a, b, cc, d
    return [h[i] ^ s[i % 4] ^ v[i] ^ v[i + 8] for i in range(8)]

def blake2_compress(w, h, m, t, f0, f1=0):
    """w: 64 (BLAKE2b) / 32 (BLAKE2s); t: byte counter (integer); f0: all-ones when last block"""
    IV = S.IV512 if w == 64 else S.IV256
    rot = (32, 24, 16, 63) if w == 64 else (16, 12, 8, 7)
    M = mask(w)
    v = list(h) + list(IV)
    v[12] = v[12] ^ (t & M); v[13] = v[13] ^ ((t >> w) & M); v[14] = v[14] ^ f0; v[15] = v[15] ^ f1
    for r in range(12 if w == 64 else 10):
        sg = SIGMA[r % 10]
        for i, (ja, jb, jc, jd) in enumerate(IDX):
            a, b, cc, d = v[ja], v[jb], v[jc], v[jd]
            a = (a + b + m[sg[2 * i]]) & M; d = ror(d ^ a, rot[0], w)
            cc = (cc + d) & M; b = ror(b ^ cc, rot[1], w)
            a = (a + b + m[sg[2 * i + 1]]) & M; d = ror(d ^ a, rot[2], w)
            cc = (cc + d) & M; b = ror(b ^ cc, rot[3], w)
            v[ja], v[jb], v[jc], v[jd] = a, b, cc, d
    return [h[i] ^ v[i] ^ v[i + 8] for i in range(8)]

COMP = {('blake', 32): Opaque('blake_compress32', lambda *a: tuple(blake_compress(32, a[:8], a[8:24], a[24:28], a[28])), [32] * 28 + [64], (32,) * 8),
        ('blake', 64): Opaque('blake_compress64', lambda *a: tuple(blake_compress(64, a[:8], a[8:24], a[24:28], a[28])), [64] * 28 + [128], (64,) * 8),
        ('blake2', 32): Opaque('blake2_compress32', lambda *a: tuple(blake2_compress(32, a[:8], a[8:24], a[24], a[25])), [32] * 24 + [64, 32], (32,) * 8),
        ('blake2', 64): Opaque('blake2_compress64', lambda *a: tuple(blake2_compress(64, a[:8], a[8:24], a[24], a[25])), [64] * 24 + [128, 64], (64,) * 8)}
NAMES = ['blake_compress32', 'blake_compress64', 'blake2_compress32', 'blake2_compress64']

def pad_tail(m, needed, total, size):
    """bytes of: the first `needed` bits of m, a 1 bit, the minimal number N >= 0 of 0 bits, the marker bit
    (1 for BLAKE-256/512, 0 for BLAKE-224/384), and `total` as a 2-word big-endian integer -- a whole number of blocks"""
    w = 32 if size <= 256 else 64; bs = 16 * w; lb = 2 * w
    n, r = divmod(needed, 8)
    msg = from_be(list(m[:n]))
    if r: msg = (msg << r) | (m[n] >> (8 - r))
    N = (-(needed + 2 + lb)) % bs
    v = 1 if size in (256, 512) else 0
    Pv = (msg << (1 + N + 1 + lb)) | (1 << (N + 1 + lb)) | (v << lb) | (total & mask(lb))
    return be_bytes(Pv, (needed + 2 + N + lb) // 8)

def blake_pad(M, L, size):
    """padded message bytes for BLAKE-size: bits || 1 || 0* || (1|0) || length, and the per-block counters"""
    w = 32 if size <= 256 else 64; bs = 16 * w; lb = 2 * w
    out = pad_tail(list(M), L, L, size)
    nblk = 8 * len(out) // bs
    ts = []
    for i in range(nblk):
        hi = min(L, (i + 1) * bs)
        ts.append(hi if hi > i * bs or (L == 0 and False) else 0)
    # a block that holds no message bit gets counter 0
    ts = [t if (min(L, (i + 1) * bs) - i * bs) > 0 else 0 for i, t in enumerate(ts)]
    return out, ts

def blake(size, M, L=None, salt=0, opaque=False):
    L = 8 * len(M) if L is None else L
    w = 32 if size <= 256 else 64; wb = w // 8
    P, ts = blake_pad(M, L, size)
    s = [(salt >> (w * (3 - i))) & mask(w) for i in range(4)]
    h = list(iv(size))
    for i, t in enumerate(ts):
        blk = P[16 * wb * i:16 * wb * (i + 1)]
        m = [from_be(blk[wb * j:wb * j + wb]) for j in range(16)]
        h = list(COMP[('blake', w)](*h, *m, *s, t)) if opaque else blake_compress(w, h, m, s, t)
    return [b for x in h for b in be_bytes(x, wb)][:size // 8]

def blake2_param(w, outlen, keylen=0, fanout=1, depth=1, leafl=0, noffset=0, ndepth=0, inner=0, salt=b'', pers=b''):
    wb = w // 8
    salt = list(salt) + [0] * (2 * wb - len(salt)); pers = list(pers) + [0] * (2 * wb - len(pers))
    P = [outlen, keylen, fanout, depth] + le_bytes(leafl, 4)
    P += le_bytes(noffset, 8) if w == 64 else le_bytes(noffset, 6)
    P += [ndepth, inner]
    if w == 64: P += [0] * 14
    P += salt + pers
    return [from_le(P[wb * j:wb * j + wb]) for j in range(8)]

def blake2(w, M, outlen=None, opaque=False, **params):
    wb = w // 8; bl = 16 * wb
    outlen = outlen or wb * 8 // 8 * 1 and (64 if w == 64 else 32)
    IV = S.IV512 if w == 64 else S.IV256
    h = [a ^ b for a, b in zip(IV, blake2_param(w, outlen, **params))]
    M = list(M)
    nblk = max(1, -(-len(M) // bl))
    for i in range(nblk):
        blk = M[bl * i:bl * (i + 1)]; last = (i == nblk - 1)
        t = min(len(M), bl * (i + 1))
        blk = blk + [0] * (bl - len(blk))
        m = [from_le(blk[wb * j:wb * j + wb]) for j in range(16)]
        f0 = mask(w) if last else 0
        h = list(COMP[('blake2', w)](*h, *m, t, f0)) if opaque else blake2_compress(w, h, m, t, f0)
    return [b for x in h for b in le_bytes(x, wb)][:outlen]
