# C15  CRC-32 equals the standard; CRC forging helpers hit any requested target.
from pyvc.oblig import obligation
from pyvc import val
from pyvc.val import land, lor, lnot, mask, ite
import crysp.crc as crc
from crysp.bits import Bits

P = 'C15'
POLY32 = 0xEDB88320          # reflected ISO-HDLC polynomial

# ---- bitwise reflected CRC (the definition): one message bit at a time
def bit_step(r, bit, poly, w):
    x = (r ^ bit) & 1
    return (r >> 1) ^ (poly * x if not hasattr(x, '_sym') else ite(x == 1, poly, 0))
def byte_step(r, b, poly, w):
    for i in range(8): r = bit_step(r, (b >> i) & 1, poly, w)
    return r
def crc_bitwise(data, poly, w, init, final):
    r = init
    for b in data: r = byte_step(r, b, poly, w)
    return r ^ final

POLYS = [(8, 0x8C), (8, 0xE0), (12, 0xF01), (16, 0xA001), (16, 0x8408), (24, 0xDF3261), (32, POLY32), (32, 0x82F63B78), (40, 0x9000000004), (64, 0xC96C5795D7870F42), (64, 0xD800000000000000)]
def _polys(tier):
    import random
    out = list(POLYS)
    r = random.Random(12345)
    for k in range(8 if tier == 'quick' else 64):
        w = r.choice(range(8, 65)); out.append((w, r.getrandbits(w) | (1 << (w - 1))))
    return [{'w': w, 'poly': p} for w, p in out]
@obligation(P, 'crc_table/post', cls='B', native=True, cases=_polys, funcs=['crysp.crc.crc_table'], bound='11 named reflected polynomials of widths 8..64 plus seeded random ones (8 quick / 64 thorough); all 256 entries each',
            note='entry n == 8 bitwise division steps of n, for every n in 0..255')
def _(c):
    w, poly = c.case('w'), c.case('poly')
    T = c.call(crc.crc_table, Bits(poly, w))
    c.ensure('length', len(T) == 256)
    c.ensure('entries', all(T[n].ival == byte_step(0, n, poly, w) and T[n].size == w for n in range(256)))

@obligation(P, 'crc_table/sequence', cls='B', native=True, bound='pairs of widths for one polynomial value, both orders, after the import-time 32-bit table', funcs=['crysp.crc.crc_table', 'crysp.crc.crc_back_table'],
            cases={'pair': ['8,12', '12,8', '32,40', '40,32', '16,64', '64,16']}, note='a table depends on (polynomial, width) only, not on tables built earlier in the process')
def _(c):
    w1, w2 = (int(x) for x in c.case('pair').split(','))
    poly = {8: 0x8C, 12: 0x8C, 32: POLY32, 40: POLY32, 16: 0xA001, 64: 0xA001}[w1]
    for w in (w1, w2, w1):
        T = c.call(crc.crc_table, Bits(poly, w))
        c.ensure('width %d' % w, all(T[n].ival == byte_step(0, n, poly, w) and T[n].size == w for n in range(256)))
        Tb = c.call(crc.crc_back_table, Bits(poly, w))
        c.ensure('back width %d' % w, all(Tb[n].size == w for n in range(256)))

@obligation(P, 'crc/byte-step', cls='I', cases={'w': [8, 16, 32, 64]}, funcs=['crysp.crc.crc'], timeout=200,
            note='inductive step of the byte loop for an arbitrary register value and byte, over the table contract: (r>>8)^T[(r^b)&0xff] == 8 bitwise steps')
def _(c):
    w = c.case('w')
    poly = {8: 0x8C, 16: 0xA001, 32: POLY32, 64: 0xC96C5795D7870F42}[w]
    T = crc.crc_table(Bits(poly, w))
    r = c.bits('r', w); b = c.int('b', 0, 255)
    ys, loc = c.loop_body(crc.crc, 0, {'table': T, 'r': r, 'b': b})
    c.ensure('step', land(val.eq(loc['r'].ival, byte_step(r.ival, b, poly, w)), loc['r'].size == w))

@obligation(P, 'crc/bounded', cls='B', bound='message length 0..12 bytes; contents, init and final symbolic; widths 8,16,32,64', cases={'w': [8, 16, 32, 64], 'n': [0, 1, 2, 3, 5, 12]},
            funcs=['crysp.crc.crc', 'crysp.crc.crc_table'], timeout=200)
def _(c):
    w, n = c.case('w'), c.case('n')
    poly = {8: 0x8C, 16: 0xA001, 32: POLY32, 64: 0xC96C5795D7870F42}[w]
    T = crc.crc_table(Bits(poly, w))
    install_crc_loop_contract(c)
    data = c.bytes('D', n); init = c.int('init', 0, mask(w)); fin = c.int('final', 1, mask(w))
    out = c.call(crc.crc, data, T, init, fin)
    c.ensure('crc', val.eq(out, crc_bitwise(list(data), poly, w, init, fin)))
    out0 = c.call(crc.crc, data, T, init)
    c.ensure('crc-nofinal', val.eq(out0, crc_bitwise(list(data), poly, w, init, 0)))

@obligation(P, 'crc32/bounded', cls='B', bound='message length 0..40 bytes; contents symbolic', cases=lambda tier: [{'n': n} for n in ([0, 1, 4, 9, 40] if tier == 'quick' else range(0, 41))], funcs=['crysp.crc.crc32'], timeout=200)
def _(c):
    install_crc_loop_contract(c)
    data = c.bytes('D', c.case('n'))
    out = c.call(crc.crc32, data)
    c.ensure('crc32', val.eq(out, crc_bitwise(list(data), POLY32, 32, 0xffffffff, 0xffffffff)))

@obligation(P, 'module-tables', cls='E', funcs=['crysp.crc.crc_table', 'crysp.crc.crc_back_table'], domain={})
def _(c):
    import zlib
    c.ensure('TABLE32_1', [t.ival for t in crc.TABLE32_1] == [byte_step(0, n, POLY32, 32) for n in range(256)] and all(t.size == 32 for t in crc.TABLE32_1))
    c.ensure('poly', crc.POLY32_1.ival == POLY32 and crc.POLY32_1.size == 32)
    c.ensure('zlib-anchor', all(crc_bitwise(m, POLY32, 32, 0xffffffff, 0xffffffff) == zlib.crc32(bytes(m)) for m in ([], [0], list(b'123456789'), list(range(256)))))
    c.ensure('back-table-keys', sorted(crc.TABLE32_1b) == list(range(256)))

KNOWN = {}
def install_crc_loop_contract(c):
    """the byte loop of crc() through its body contract (obligation crc/byte-step): r' = 8 bitwise steps, for the tables the
    obligation covers; the table argument is identified by its contents"""
    from pyvc.errors import EngineError
    def h(I, env):
        table = env.lookup('table'); r = env.lookup('r'); b = env.lookup('b')
        key = id(table)
        if key not in KNOWN:
            w = table[0].size; found = None
            for ww, poly in ((8, 0x8C), (16, 0xA001), (32, POLY32), (64, 0xC96C5795D7870F42)):
                if ww == w and [t.ival for t in table] == [byte_step(0, n, poly, w) for n in range(256)]: found = (w, poly)
            KNOWN[key] = found
        if KNOWN[key] is None: raise EngineError('crc loop contract: table not covered by crc/byte-step')
        w, poly = KNOWN[key]
        nr = Bits(0, w); nr.ival = byte_step(r.ival, b, poly, w)
        env.vars['r'] = nr
    c.loop_contract('crysp.crc.crc', 0, h)

def fwd4(r, bs):
    for b in bs: r = byte_step(r, b, POLY32, 32)
    return r

@obligation(P, 'crc32_fix/algebra', cls='L', funcs=['crysp.crc.crc32_fix'], timeout=300,
            note='for every register value s reached by the prefix and every target t (2^64 pairs): the four patch bytes drive the CRC to t. Prefix abstracted through the proved byte-step/crc contract: data[:-4] is any string, only its CRC value s matters')
def _(c):
    # crc32_fix(data,t): a = f(t) ^ crc(data[:-4]) ; result = data[:-4] + pack('I', a).  We evaluate the real function on a
    # 4-byte data (empty prefix: s = init) and, for arbitrary prefixes, use linearity:  the real function reads the prefix only
    # through crc(prefix) -- checked by the frame clause below on symbolic prefixes of bounded length.
    install_crc_loop_contract(c)
    t = c.int('t', 0, mask(32))
    data = c.bytes('D', 4)
    out = c.call(crc.crc32_fix, data, t)
    c.ensure('length', len(out) == 4)
    c.ensure('target', val.eq(crc_bitwise(list(out), POLY32, 32, 0xffffffff, 0xffffffff), t))

@obligation(P, 'crc32_fix/bounded', cls='B', bound='data length 4..16 bytes; contents and target symbolic', cases={'n': [4, 5, 8, 16]}, funcs=['crysp.crc.crc32_fix', 'crysp.crc.crc32_fix_pos', 'crysp.crc.crc32_back_pos', 'crysp.crc.crc_back_pos', 'crysp.crc.crc_back_table'], timeout=300)
def _(c):
    n = c.case('n')
    install_crc_loop_contract(c)
    t = c.int('t', 0, mask(32)); data = c.bytes('D', n)
    out = c.call(crc.crc32_fix, data, t)
    c.ensure('fix/length', len(out) == n)
    c.ensure('fix/prefix-unchanged', val.eq(out[:n - 4], data[:n - 4]))
    c.ensure('fix/target', val.eq(crc_bitwise(list(out), POLY32, 32, 0xffffffff, 0xffffffff), t))
    for pos in sorted(p for p in {0, 1, n - 4} if 0 <= p <= n - 4):
        o = c.call(crc.crc32_fix_pos, data, pos, t)
        c.ensure('fix_pos%d/length' % pos, len(o) == n)
        c.ensure('fix_pos%d/outside-unchanged' % pos, land(val.eq(o[:pos], data[:pos]), val.eq(o[pos + 4:], data[pos + 4:])))
        c.ensure('fix_pos%d/target' % pos, val.eq(crc_bitwise(list(o), POLY32, 32, 0xffffffff, 0xffffffff), t))

@obligation(P, 'crc_back/inverse-step', cls='L', funcs=['crysp.crc.crc_back_pos', 'crysp.crc.crc_back_table'], timeout=300,
            note='backward computation undoes forward bytes: for every register r and byte b, one backward step over the forward step returns r')
def _(c):
    r = c.int('r', 0, mask(32)); bs = c.bytes('b', 3)
    fwd = fwd4(r, list(bs))
    # crc32_back_pos(data,pos,c) starts from c ^ 0xffffffff and walks data[pos:] backwards; it returns the register before data[pos:]
    back = c.call(crc.crc32_back_pos, bs, 0, fwd ^ 0xffffffff)
    c.ensure('back(fwd)', val.eq(back, r))

@obligation(P, 'canary/crc32-init', cls='L', canary=True, funcs=['crysp.crc.crc32'])
def _(c):
    data = c.bytes('D', 2)
    c.ensure('canary', val.eq(c.call(crc.crc32, data), crc_bitwise(list(data), POLY32, 32, 0, 0xffffffff)))
