# C01  MD4/MD5/SHA-0/SHA-1/SHA-2 digests equal the standards for every message.
from pyvc.oblig import obligation
from pyvc import val
from pyvc.val import land, lor, lnot, mask
from spec import sha as S
import crysp.sha as sha, crysp.md as md, crysp.padding as padding
from crysp.bits import Bits

P = 'C01'
COMP = ['Ch', 'Maj', 'Parity', 'Sigma0', 'Sigma1', 'sigma0', 'sigma1', 'MD5_I', 'MD5_G']

def wbits(c, name, k, w):
    out = []
    for i in range(k):
        b = Bits(0, w); b.ival = c.word('%s%d' % (name, i), w); out.append(b)
    return out

# ------------------------------------------------------------------ component formulas (L)
@obligation(P, 'crysp.sha.Ch-Maj-Parity/post', cls='L', funcs=['crysp.sha.Ch', 'crysp.sha.Maj', 'crysp.sha.Parity'], cases={'w': [32, 64]})
def _(c):
    w = c.case('w')
    x, y, z = wbits(c, 'x', 3, w)
    for f, sf, nm in ((sha.Ch, S.Ch, 'Ch'), (sha.Maj, S.Maj, 'Maj'), (sha.Parity, S.Parity, 'Parity')):
        r = c.call(f, x, y, z)
        c.ensure(nm, land(val.eq(r.ival, sf(w, x.ival, y.ival, z.ival)), r.size == w))

@obligation(P, 'crysp.sha.SHA2.Sigma/post', cls='L', funcs=['crysp.sha.SHA2.__init__'], cases={'size': [224, 256, 384, 512]})
def _(c):
    h = sha.SHA2(c.case('size')); w = h.wsize
    c.ensure('wsize', w == (32 if c.case('size') <= 256 else 64))
    (x,) = wbits(c, 'x', 1, w)
    for f, sf, nm in ((h.Sigma_0, S.Sigma0, 'Sigma0'), (h.Sigma_1, S.Sigma1, 'Sigma1'), (h.sigma_0, S.sigma0, 'sigma0'), (h.sigma_1, S.sigma1, 'sigma1')):
        r = c.call(f, x)
        c.ensure(nm, land(val.eq(r.ival, sf(w, x.ival)), r.size == w))

@obligation(P, 'crysp.md.ft/post', cls='L', funcs=['crysp.md.MD4.__init__', 'crysp.md.MD5.__init__'])
def _(c):
    x, y, z = wbits(c, 'x', 3, 32)
    h4 = md.MD4(); h5 = md.MD5()
    for f, sf, nm in ((h4.ft[0], S.Ch, 'md4.F'), (h4.ft[1], S.Maj, 'md4.G'), (h4.ft[2], S.Parity, 'md4.H'),
                      (h5.ft[0], S.Ch, 'md5.F'), (h5.ft[1], S.MD5_G, 'md5.G'), (h5.ft[2], S.Parity, 'md5.H'), (h5.ft[3], S.MD5_I, 'md5.I')):
        r = c.call(f, x, y, z)
        c.ensure(nm, land(val.eq(r.ival, sf(32, x.ival, y.ival, z.ival)), r.size == 32))
    c.ensure('tables', len(h4.ft) == 3 and len(h5.ft) == 4)

# ------------------------------------------------------------------ compression = one iteration of update (L, components opaque)
def install_components(c, h):
    c.replace_wordfn(sha.Ch, S.Ch); c.replace_wordfn(sha.Maj, S.Maj); c.replace_wordfn(sha.Parity, S.Parity)
    if isinstance(h, sha.SHA2):
        c.replace_wordfn(h.Sigma_0, S.Sigma0); c.replace_wordfn(h.Sigma_1, S.Sigma1)
        c.replace_wordfn(h.sigma_0, S.sigma0); c.replace_wordfn(h.sigma_1, S.sigma1)
    if isinstance(h, md.MD5):
        for f, sf in zip(h.ft, (S.Ch, S.MD5_G, S.Parity, S.MD5_I)): c.replace_wordfn(f, sf)
    elif isinstance(h, md.MD4):
        for f, sf in zip(h.ft, (S.Ch, S.Maj, S.Parity)): c.replace_wordfn(f, sf)

ALGS = {
    'sha0': (lambda: sha.SHA1(0), 32, 5, False, lambda H, W: S.sha1_compress(H, W, 0)),
    'sha1': (lambda: sha.SHA1(1), 32, 5, False, lambda H, W: S.sha1_compress(H, W, 1)),
    'sha256': (lambda: sha.SHA2(256), 32, 8, False, lambda H, W: S.sha2_compress(H, W, 32)),
    'sha224': (lambda: sha.SHA2(224), 32, 8, False, lambda H, W: S.sha2_compress(H, W, 32)),
    'sha512': (lambda: sha.SHA2(512), 64, 8, False, lambda H, W: S.sha2_compress(H, W, 64)),
    'sha384': (lambda: sha.SHA2(384), 64, 8, False, lambda H, W: S.sha2_compress(H, W, 64)),
    'sha512/224': (lambda: sha.SHA2(512, 224), 64, 8, False, lambda H, W: S.sha2_compress(H, W, 64)),
    'sha512/256': (lambda: sha.SHA2(512, 256), 64, 8, False, lambda H, W: S.sha2_compress(H, W, 64)),
    'md4': (lambda: md.MD4(), 32, 4, True, S.md4_compress),
    'md5': (lambda: md.MD5(), 32, 4, True, S.md5_compress),
}
CNAMES = ['sha0_compress', 'sha1_compress', 'sha2_compress32', 'sha2_compress64', 'md4_compress', 'md5_compress']

def install_update_contract(c, h, alg):
    """the loop body of update() (one compression) is used through its contract  H' = compress(H, W),
    which is the obligation update/one-block=compress"""
    from pyvc.errors import EngineError
    comp = S.compress_of(alg); w = h.wsize
    qual = type(h).update.__module__ + '.' + type(h).update.__qualname__
    def handler(I, env):
        s = env.lookup('self'); W = env.lookup('W')
        if len(W) != 16 or any(x.size != w for x in W) or any(b.size != w for b in s.H):
            raise EngineError('loop contract precondition of %s does not hold' % qual)
        Hn = comp(*[b.ival for b in s.H], *[x.ival for x in W])
        for i, v in enumerate(Hn):
            nb = Bits(0, w); nb.ival = v; s.H[i] = nb
    c.loop_contract(qual, 0, handler)

OUTLEN = {'sha0': 20, 'sha1': 20, 'sha256': 32, 'sha224': 28, 'sha512': 64, 'sha384': 48, 'sha512/224': 28, 'sha512/256': 32, 'md4': 16, 'md5': 16}

@obligation(P, 'update/one-block=compress', cls='L', opaque=COMP, timeout=300,
            funcs=['crysp.sha.SHA1.update', 'crysp.sha.SHA2.update', 'crysp.md.MD4.update', 'crysp.md.MD5.update', 'crysp.sha.SHA1.iterblocks', 'crysp.md.MD4.iterblocks'],
            cases={'alg': list(ALGS)})
def _(c):
    mk, w, nh, little, comp = ALGS[c.case('alg')]
    h = mk()
    install_components(c, h)
    H0 = c.words('H', nh, w)
    h.H = []
    for v in H0:
        b = Bits(0, w); b.ival = v; h.H.append(b)
    blk = c.bytes('M', 16 * w // 8)
    W = [(val.from_le if little else val.from_be)(blk[i:i + w // 8]) for i in range(0, len(blk), w // 8)]
    out = c.call(type(h).update, h, blk, padding=False)        # one whole block, no padding: exactly one iteration
    exp = comp(H0, W)
    c.ensure('state', land(*[land(val.eq(b.ival, e), b.size == w) for b, e in zip(h.H, exp)]))
    c.ensure('state-length', len(h.H) == nh)
    ser = [x for e in exp for x in (val.le_bytes(e, w // 8) if little else val.be_bytes(e, w // 8))]
    c.ensure('output', val.eq(out, ser[:OUTLEN[c.case('alg')]]))
    c.ensure('counter', h.padmethod.bitcnt == 16 * w)

# ------------------------------------------------------------------ initial values (finite: E)
@obligation(P, 'initstate/IV', cls='E', funcs=['crysp.sha.SHA1.initstate', 'crysp.sha.SHA2.initstate', 'crysp.md.MD4.initstate', 'crysp.sha.SHA2.__init__'],
            cases={'alg': list(ALGS)}, domain={})
def _(c):
    a = c.case('alg')
    h = ALGS[a][0]()
    iv = {'sha0': S.IV1, 'sha1': S.IV1, 'md4': S.IV1[:4], 'md5': S.IV1[:4], 'sha256': S.IV256, 'sha224': S.IV224, 'sha512': S.IV512, 'sha384': S.IV384,
          'sha512/224': S.sha2_iv(512, 224), 'sha512/256': S.sha2_iv(512, 256)}[a]
    w = ALGS[a][1]
    c.ensure('fresh', [(b.ival, b.size) for b in h.H] == [(v, w) for v in iv])
    h.H[0] = Bits(123, w); h.padmethod.bitcnt = 77; h.padmethod.padflag = True
    c.call(type(h).initstate, h)
    c.ensure('re-init', [(b.ival, b.size) for b in h.H] == [(v, w) for v in iv] and h.padmethod.bitcnt == 0 and h.padmethod.padflag is False)
    c.ensure('blocksize', h.blocksize == 16 * w and h.padmethod.blocksize == 16 * w and h.padmethod.wsize == w)
    if isinstance(h, sha.SHA2):
        K = S.K256 if w == 32 else S.K512
        c.ensure('K', list(h.K) == K)
    if isinstance(h, sha.SHA1) and not isinstance(h, sha.SHA2):
        c.ensure('K', list(h.K) == [S.K1[t // 20] for t in range(80)])
    if isinstance(h, md.MD5):
        c.ensure('K', list(h.K) == S.KMD5)
    elif isinstance(h, md.MD4):
        c.ensure('K', list(h.K) == S.KMD4)

# ------------------------------------------------------------------ last block (L: every tail length and bit residue; counters unbounded)
def _lb_cases(tier):
    out = []
    for kind, bs, ws in (('SHA', 512, 32), ('SHA', 1024, 64), ('MD', 512, 32)):
        bl = bs // 8
        for p in range(0, bl + 1):
            out.append({'kind': kind, 'bs': bs, 'p': p})
    return out

def _lb_quick(tier):
    out = []
    for kind, bs in (('SHA', 512), ('SHA', 1024), ('MD', 512)):
        bl = bs // 8; ws = bl // 8
        for p in sorted({0, 1, 2, bl // 2, bl - ws - 2, bl - ws - 1, bl - ws, bl - ws + 1, bl - 1, bl}): out.append({'kind': kind, 'bs': bs, 'p': p})
    return out
@obligation(P, 'lastblock/boundary', cls='B', funcs=['crysp.padding.SHApadding.lastblock', 'crysp.padding.MDpadding.lastblock', 'crysp.bits.pack'], tiers=('quick',),
            cases=_lb_quick, bound='tail lengths at the padding-spill boundary and block ends (quick tier); the thorough tier proves every tail length (class L)')
def _(c): return _lastblock(c)
@obligation(P, 'lastblock/post', cls='L', funcs=['crysp.padding.SHApadding.lastblock', 'crysp.padding.MDpadding.lastblock', 'crysp.bits.pack'], tiers=('thorough',),
            cases=_lb_cases, note='every tail length 0..blocklen x every bit residue; earlier-bits counter symbolic in [0,2^130]')
def _(c): return _lastblock(c)
def _lastblock(c):
    kind, bs, p = c.case('kind'), c.case('bs'), c.case('p')
    ws = bs // 16
    little = kind == 'MD'
    for r in range(8):
        if p == 0 and r > 0: continue
        needed = 8 * p - ((8 - r) % 8)            # bits of the tail that belong to the message
        if needed < 0: continue
        pm = (padding.MDpadding if little else padding.SHApadding)(bs, ws)
        cnt = c.int('cnt%d' % r, 0, 1 << 124) * bs           # bits hashed before this tail: any multiple of the block size
        pm.bitcnt = cnt
        m = c.bytes('m%d' % r, p)
        total = cnt + needed
        for explicit in ((False, True) if r == 0 else (True,)):
            pm.bitcnt = cnt; pm.padflag = False
            out = c.call(type(pm).lastblock, pm, m, **({'bitlen': total} if explicit else {}))
            exp = S.pad_tail(m, needed, total, bs, 2 * ws, little)
            lab = 'r=%d,explicit=%s' % (r, explicit)
            c.ensure(lab + '/bytes', val.eq(out, exp))
            c.ensure(lab + '/length', len(out) in (bs // 8, 2 * bs // 8) and len(out) == (bs // 8 if needed + 1 + 2 * ws <= bs else 2 * bs // 8))
            c.ensure(lab + '/bitcnt', val.eq(pm.bitcnt, total))
            c.ensure(lab + '/padflag', pm.padflag is True)

@obligation(P, 'lastblock/rejects-short-bitlen', cls='L', funcs=['crysp.padding.SHApadding.lastblock', 'crysp.padding.MDpadding.lastblock'],
            cases={'kind': ['SHA', 'MD']})
def _(c):
    pm = (padding.MDpadding if c.case('kind') == 'MD' else padding.SHApadding)(512, 32)
    cnt = c.int('cnt', 1, 1 << 70)
    pm.bitcnt = cnt
    bl = c.int('bitlen', 0, 1 << 70)
    c.assume(bl < cnt)
    c.raises('bitlen<bitcnt', Exception, type(pm).lastblock, pm, b'', bitlen=bl)

# ------------------------------------------------------------------ whole hash, bounded in length, contents symbolic (B)
def _lens(tier, bl):
    base = [0, 1, 2, bl - 9 - (bl // 8), bl - 9, bl - 8, bl - 1, bl, bl + 1, 2 * bl - 9, 2 * bl - 8, 2 * bl]
    ws = bl // 8          # bytes of the length field = 2*wsize/8 = bl/8
    base = sorted({0, 1, 3, bl - ws - 2, bl - ws - 1, bl - ws, bl - ws + 1, bl - 1, bl, bl + 1, 2 * bl - ws - 1, 2 * bl - ws, 2 * bl})
    if tier == 'quick': return [x for x in base if x <= bl + 1] + [2 * bl - ws]
    return sorted(set(base + list(range(0, 2 * bl + 2, 7))))

def _whole_cases(tier):
    out = []
    if tier == 'quick':
        # main algorithms at the length classes that matter (empty, one byte with bit residues, around the padding spill,
        # block boundary, two-block spill); the IV/truncation variants at three lengths
        for a in ('md5', 'sha1', 'sha256', 'sha512'):
            bl = 16 * ALGS[a][1] // 8; ws = bl // 8
            for n, rs in ((0, (0,)), (1, (0, 1, 7)), (bl - ws - 1, (0,)), (bl - ws, (0, 7)), (bl - 1, (0,)), (bl, (0, 1)), (bl + 1, (0,)), (2 * bl - ws, (0,))):
                for r in rs: out.append({'alg': a, 'n': n, 'r': r})
        for a in ('md4', 'sha0', 'sha224', 'sha384', 'sha512/224', 'sha512/256'):
            bl = 16 * ALGS[a][1] // 8
            for n in (0, 3, bl - bl // 8): out.append({'alg': a, 'n': n, 'r': 0})
        return out
    for a in ALGS:
        bl = 16 * ALGS[a][1] // 8
        for n in _lens(tier, bl):
            for r in range(8):
                if n == 0 and r: continue
                out.append({'alg': a, 'n': n, 'r': r})
    return out

def spec_hash(alg, M, L):
    if alg == 'sha0': return S.sha1(M, L, 0)
    if alg == 'sha1': return S.sha1(M, L, 1)
    if alg == 'md4': return S.md4(M, L)
    if alg == 'md5': return S.md5(M, L)
    if '/' in alg: return S.sha2(512, M, L, int(alg.split('/')[1]))
    return S.sha2(int(alg[3:]), M, L)

@obligation(P, '__call__/bounded', cls='B', opaque=CNAMES, timeout=200, bound='message length <= 2 blocks (+1 byte); every listed length, bit residues 0..7 (thorough) / {0,1,7} at selected lengths (quick); contents symbolic',
            funcs=['crysp.sha.SHA1.__call__', 'crysp.sha.SHA1.update', 'crysp.sha.SHA2.update', 'crysp.md.MD4.__call__', 'crysp.md.MD4.update', 'crysp.md.MD5.update',
                   'crysp.padding.blockiterator.iterblocks', 'crysp.padding.SHApadding.lastblock', 'crysp.padding.MDpadding.lastblock'],
            cases=_whole_cases)
def _(c):
    a, n, r = c.case('alg'), c.case('n'), c.case('r')
    h = ALGS[a][0]()
    install_update_contract(c, h, a)
    M = c.bytes('M', n)
    L = 8 * n - ((8 - r) % 8)
    # dirty state from an earlier call must not matter (the call re-initialises): C10's havoc in miniature
    h.padmethod.padflag = True; h.padmethod.bitcnt = 12345
    out = c.call(type(h).__call__, h, M, **({'bitlen': L} if r else {}))
    exp = spec_hash(a, M, L)
    c.ensure('digest', val.eq(out, exp))
    c.ensure('length', len(out) == OUTLEN[a])

@obligation(P, '__call__/rejects-long-bitlen', cls='B', bound='message length 0..3 bytes and one block; bitlen = 8|M|+1..8|M|+16',
            funcs=['crysp.padding.blockiterator.iterblocks', 'crysp.sha.SHA1.__call__', 'crysp.md.MD4.__call__'], cases=lambda tier: [{'alg': a, 'n': n} for a in ALGS for n in ((0, 3, 64) if tier == 'quick' else (0, 1, 3, 64, 128))])
def _(c):
    a, n = c.case('alg'), c.case('n')
    M = c.bytes('M', n)
    for over in (1, 2, 7, 8, 9, 16):
        h = ALGS[a][0]()
        c.raises('bitlen=8n+%d' % over, Exception, type(h).__call__, h, M, bitlen=8 * n + over)

@obligation(P, 'canary/sha256-wrong-constant', cls='L', canary=True, opaque=COMP, funcs=['crysp.sha.SHA2.update'])
def _(c):
    h = sha.SHA2(256); install_components(c, h)
    H0 = c.words('H', 8, 32)
    h.H = []
    for v in H0:
        b = Bits(0, 32); b.ival = v; h.H.append(b)
    blk = c.bytes('M', 64)
    W = [val.from_be(blk[i:i + 4]) for i in range(0, 64, 4)]
    c.call(type(h).update, h, blk, padding=False)
    exp = S.sha2_compress(H0, W, 32)
    c.ensure('canary', val.eq(h.H[7].ival, (exp[7] + 1) & mask(32)))
