# Shared contracts for the AES obligations of C02 / C03 / C10.
from pyvc import val
from pyvc.val import land
from spec import aes as A
import crysp.aes as aes
from crysp.poly import Poly

AES_OPAQUE = ['aes_sbox', 'aes_sbox_inv']

def sym_state(c, name='s'):
    p = Poly([0] * 16, 8); p.ival = c.words(name, 16, 8); return p

def install_byte_contracts(c):
    """Sbox / Sbox_inv by their contract (table == spec S-box, obligation aes.Sbox/post, class E);
    gmul by its contract (== multiplication in GF(2^8), obligation aes.gmul/post, class E)"""
    def mkpoly(vals):
        p = Poly([0] * len(vals), 8); p.ival = list(vals); return p
    def h_sbox(I, args, kw):
        (st,) = args
        return (mkpoly([A.sbox(b) for b in st.ival]),)
    def h_sbox_inv(I, args, kw):
        (st,) = args
        return (mkpoly([A.sbox_inv(b) for b in st.ival]),)
    c.replace(aes.Sbox, h_sbox); c.replace(aes.Sbox_inv, h_sbox_inv)
    # the tables themselves, when indexed by a list of (symbolic) bytes: same contract (aes.Sbox/post proves table == S-box)
    def h_table(I, args, kw):
        self, i = args
        if self is aes.AES.sboxtable and isinstance(i, (list, tuple)): return (mkpoly([A.sbox(b) for b in i]),)
        if self is aes.AES.sboxinvtable and isinstance(i, (list, tuple)): return (mkpoly([A.sbox_inv(b) for b in i]),)
        return NotImplemented
    c.replace(Poly.__getitem__, h_table)
    def h_gmul(I, args, kw):
        a, n = args
        if not isinstance(n, int): return NotImplemented
        lo, hi = (a.lo, a.hi) if hasattr(a, 'lo') else (a, a)
        if lo < 0 or hi > 255: return NotImplemented
        return (A.gf_mul(a, n),)
    c.replace(aes.gmul, h_gmul)

def mk_aes(c, nk, name='K'):
    key = c.bytes(name, 4 * nk)
    return aes.AES(key) if c.mode != 'sym' else c.call(aes.AES, key), key

def install_layer_contracts(c, nk):
    """state-level contracts: every layer method and the key schedule are used through their contracts
    (AES.layer/post, AES.keyschedule/post); composition obligations then only see opaque spec functions"""
    for name, key in (('SubBytes', 'sub_bytes'), ('InvSubBytes', 'inv_sub_bytes'), ('ShiftRows', 'shift_rows'), ('InvShiftRows', 'inv_shift_rows'),
                      ('MixColumns', 'mix_columns'), ('InvMixColumns', 'inv_mix_columns')):
        def h(I, args, kw, key=key):
            self, st = args
            st.ival[:] = A.LAYERS_OPAQUE[key](list(st.ival))
            return (None,)
        c.replace(getattr(aes.AES, name), h)
    def h_ks(I, args, kw):
        (self,) = args
        key = val.le_bytes(self.K.ival, 4 * self.Nk)
        out = []
        for wd in A.key_expansion_opaque(key):
            p = Poly([0] * 4, 8); p.ival = list(wd); out.append(p)
        return (out,)
    c.replace(aes.AES.keyschedule, h_ks)
