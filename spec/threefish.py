# Threefish-256/512/1024 (Skein 1.3, section 3.3) on 64-bit words.  Validated against the Skein 1.3 known answers.
from pyvc.val import mask, rol, ror, Opaque, WordFn

C240 = 0x1BD11BDAA9FC1A22
PI = {4: (0, 3, 2, 1), 8: (2, 1, 4, 7, 6, 5, 0, 3), 16: (0, 9, 2, 13, 6, 11, 4, 15, 10, 7, 12, 3, 14, 5, 8, 1)}
R = {4: ((14, 16), (52, 57), (23, 40), (5, 37), (25, 33), (46, 12), (58, 22), (32, 32)),
     8: ((46, 36, 19, 37), (33, 27, 14, 42), (17, 49, 36, 39), (44, 9, 54, 56), (39, 30, 34, 24), (13, 50, 10, 17), (25, 29, 39, 43), (8, 35, 56, 22)),
     16: ((24, 13, 8, 47, 8, 17, 22, 37), (38, 19, 10, 55, 49, 18, 23, 52), (33, 4, 51, 13, 34, 41, 59, 17), (5, 20, 48, 41, 47, 28, 16, 25),
          (41, 9, 37, 31, 12, 47, 44, 30), (16, 34, 56, 51, 4, 53, 42, 41), (31, 44, 47, 46, 19, 42, 44, 25), (9, 48, 35, 52, 23, 31, 37, 20))}
M64 = mask(64)

def mix(x0, x1, r):
    y0 = (x0 + x1) & M64
    return y0, rol(x1, r, 64) ^ y0
def mix_inv(y0, y1, r):
    x1 = ror(y0 ^ y1, r, 64)
    return (y0 - x1) & M64, x1
# MIX as opaque word functions of (x0,x1) per rotation amount: two outputs
# MIX as an opaque function of the packed pair x0 | x1<<64 (one 128-bit argument, so that the inverse lemma is a rewrite)
def _pk(a, b): return a | (b << 64)
def _un(x): return x & M64, (x >> 64) & M64
_MIX = {r: Opaque('tf_mix%d' % r, (lambda x, r=r: _pk(*mix(*_un(x), r))), [128], 128) for r in range(64)}
_MIXINV = {r: Opaque('tf_mixinv%d' % r, (lambda x, r=r: _pk(*mix_inv(*_un(x), r))), [128], 128) for r in range(64)}
MIX = {r: (lambda a, b, r=r: _un(_MIX[r](_pk(a, b)))) for r in range(64)}
MIXINV = {r: (lambda a, b, r=r: _un(_MIXINV[r](_pk(a, b)))) for r in range(64)}
NAMES = ['tf_mix%d' % r for r in range(64)] + ['tf_mixinv%d' % r for r in range(64)]

def key_words(k): return list(k) + [_xor_all(k) ^ C240]
def _xor_all(k):
    x = 0
    for w in k: x = x ^ w
    return x
def subkey(k, t, s):
    Nw = len(k) - 1
    t = list(t) + [t[0] ^ t[1]]
    ks = [k[(s + i) % (Nw + 1)] for i in range(Nw)]
    ks[Nw - 3] = (ks[Nw - 3] + t[s % 3]) & M64
    ks[Nw - 2] = (ks[Nw - 2] + t[(s + 1) % 3]) & M64
    ks[Nw - 1] = (ks[Nw - 1] + s) & M64
    return ks

def encrypt_words(k, t, v, opaque=False):
    Nw = len(k); Nr = 80 if Nw == 16 else 72
    kw = key_words(k); v = list(v)
    for d in range(Nr):
        if d % 4 == 0:
            ks = subkey(kw, t, d // 4); v = [(a + b) & M64 for a, b in zip(v, ks)]
        f = []
        for j in range(Nw // 2):
            r = R[Nw][d % 8][j]
            f += list((MIX[r] if opaque else (lambda a, b: mix(a, b, r)))(v[2 * j], v[2 * j + 1]))
        v = [f[PI[Nw][i]] for i in range(Nw)]
    ks = subkey(kw, t, Nr // 4)
    return [(a + b) & M64 for a, b in zip(v, ks)]

def decrypt_words(k, t, c, opaque=False):
    Nw = len(k); Nr = 80 if Nw == 16 else 72
    kw = key_words(k)
    ks = subkey(kw, t, Nr // 4)
    v = [(a - b) & M64 for a, b in zip(c, ks)]
    for d in range(Nr - 1, -1, -1):
        f = [None] * Nw
        for i in range(Nw): f[PI[Nw][i]] = v[i]
        e = []
        for j in range(Nw // 2):
            r = R[Nw][d % 8][j]
            e += list((MIXINV[r] if opaque else (lambda a, b: mix_inv(a, b, r)))(f[2 * j], f[2 * j + 1]))
        v = e
        if d % 4 == 0:
            ks = subkey(kw, t, d // 4); v = [(a - b) & M64 for a, b in zip(v, ks)]
    return v

def _w(bs): return [int.from_bytes(bytes(bs[i:i + 8]), 'little') for i in range(0, len(bs), 8)]
def _b(ws): return [b for w in ws for b in w.to_bytes(8, 'little')]
def encrypt(key, tweak, blk): return _b(encrypt_words(_w(key), _w(tweak), _w(blk)))
def decrypt(key, tweak, blk): return _b(decrypt_words(_w(key), _w(tweak), _w(blk)))
