# Abstract hash / block cipher objects described only by an interface contract (DESIGN.md 3.3 "interface contracts"):
# the mode / MAC code is verified against ANY function with that interface (an uninterpreted function), not against
# one concrete primitive.  In concrete (replay) mode a fixed stand-in function is used.
import hashlib
from pyvc import val
from pyvc.val import Opaque

_HASHES = {}
def hash_uf(n_in, n_out, tag):
    key = (n_in, n_out, tag)
    if key not in _HASHES:
        def impl(*bs, n_out=n_out, tag=tag):
            d = hashlib.shake_128(tag.encode() + bytes(bs)).digest(n_out)
            return tuple(d)
        _HASHES[key] = Opaque('absH_%s_%d_%d' % (tag, n_in, n_out), impl, [8] * n_in, (8,) * n_out)
    return _HASHES[key]

def _mkbytes(items):
    if any(getattr(x, '_sym', False) for x in items):
        from pyvc.sbytes import from_items
        return from_items(items)
    return bytes(items)

def hash_uf_tail(n_in, n_out, tag):
    """H(prefix of n_in bytes || M) for the abstract message M identified by a 64-bit token: any function of both"""
    key = (n_in, n_out, tag, 'T')
    if key not in _HASHES:
        def impl(*a, n_out=n_out, tag=tag):
            return tuple(hashlib.shake_128(tag.encode() + b'T' + bytes(a[:-1]) + a[-1].to_bytes(8, 'big')).digest(n_out))
        _HASHES[key] = Opaque('absH_%sT_%d_%d' % (tag, n_in, n_out), impl, [8] * n_in + [64], (8,) * n_out)
    return _HASHES[key]

class AbstractHash(object):
    """h(m): n_out bytes, any function of the message bytes; blocksize in bits"""
    def __init__(self, block_bytes, out_bytes, tag='h'):
        self.blocksize = 8 * block_bytes; self.outlen = out_bytes; self.tag = tag
        self.calls = []
    def spec(self, m):
        if type(m).__name__ == 'SBytesT':
            return list(hash_uf_tail(len(m.items), self.outlen, self.tag)(*m.items, m.tail))
        m = list(m)
        return list(hash_uf(len(m), self.outlen, self.tag)(*m))
    def __call__(self, m):
        return _mkbytes(self.spec(m))

_CIPH = {}
def cipher_ufs(bs, tag):
    if (bs, tag) not in _CIPH:
        import hashlib
        def perm(x, inv, bs=bs, tag=tag):
            # a genuine permutation of bs-byte blocks for concrete mode: 4-round Feistel on the two halves
            h = bs // 2
            L, R = x >> (8 * h), x & ((1 << (8 * h)) - 1)
            rounds = range(4) if not inv else range(3, -1, -1)
            for r in rounds:
                if not inv:
                    f = int.from_bytes(hashlib.shake_128(b'%s%d' % (tag.encode(), r) + R.to_bytes(h, 'big')).digest(h), 'big')
                    L, R = R, L ^ f
                else:
                    f = int.from_bytes(hashlib.shake_128(b'%s%d' % (tag.encode(), r) + L.to_bytes(h, 'big')).digest(h), 'big')
                    L, R = R ^ f, L
            return (L << (8 * h)) | R
        E = Opaque('absE_%s_%d' % (tag, bs), lambda x: perm(x, False), [8 * bs], 8 * bs)
        D = Opaque('absD_%s_%d' % (tag, bs), lambda x: perm(x, True), [8 * bs], 8 * bs)
        _CIPH[(bs, tag)] = (E, D)
    return _CIPH[(bs, tag)]

class AbstractCipher(object):
    """enc/dec: mutually inverse functions on blocks of `bs` bytes; blocksize in bits; wrong-size blocks are refused"""
    def __init__(self, bs, tag='E'):
        self.bs = bs; self.blocksize = 8 * bs; self.size = 8 * bs; self.tag = tag
        self.E, self.D = cipher_ufs(bs, tag)
    def E_(self, block): return val.be_bytes(self.E(val.from_be(list(block))), self.bs)
    def D_(self, block): return val.be_bytes(self.D(val.from_be(list(block))), self.bs)
    def enc(self, b):
        assert len(b) == self.bs
        return _mkbytes(self.E_(b))
    def dec(self, b):
        assert len(b) == self.bs
        return _mkbytes(self.D_(b))
