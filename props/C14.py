# C14  Hashing a message piecewise gives the same digest as hashing it at once.
# Both sides are the real code: update() over pieces versus the one-shot call, with the compression loop body replaced by its
# contract (C01/C11 obligations), so equal digests mean equal block/counter/flag sequences.  Cut sets are enumerated (class B).
import itertools
from pyvc.oblig import obligation
from pyvc import val
from pyvc.val import land, lor, lnot, mask
import crysp.sha as sha, crysp.md as md, crysp.blake as blake, crysp.nilsimsa as nilsimsa
from spec import sha as S, blake as B
import props.C01 as C1, props.C11 as C11

P = 'C14'
HASHES = {'md4': (lambda: md.MD4(), 64), 'md5': (lambda: md.MD5(), 64), 'sha1': (lambda: sha.SHA1(), 64), 'sha0': (lambda: sha.SHA1(0), 64), 'sha256': (lambda: sha.SHA2(256), 64), 'sha224': (lambda: sha.SHA2(224), 64),
          'sha512': (lambda: sha.SHA2(512), 128), 'sha384': (lambda: sha.SHA2(384), 128), 'sha512/256': (lambda: sha.SHA2(512, 256), 128),
          'blake256': (lambda: blake.Blake(256), 64), 'blake512': (lambda: blake.Blake(512), 128), 'blake224': (lambda: blake.Blake(224), 64),
          'blake2s': (lambda: blake.Blake2(256), 64), 'blake2b': (lambda: blake.Blake2(512), 128)}
def install(c, name, h):
    if name.startswith('blake2'): C11.install_blake_loop(c, h, 'blake2')
    elif name.startswith('blake'): C11.install_blake_loop(c, h, 'blake')
    else: C1.install_update_contract(c, h, {'sha224': 'sha256', 'sha384': 'sha512', 'sha512/256': 'sha512'}.get(name, name))

def _cuts(tier):
    out = []
    for name in (HASHES if tier != 'quick' else ('md5', 'sha1', 'sha256', 'sha512', 'blake256', 'blake512', 'blake2s', 'blake2b')):
        for pieces in ('0', '1', '2', '1,1', '0,1', '1,0', '1,2', '2,1', '1,1,1') if tier != 'quick' else ('1', '1,1', '1,0,1'):
            bl = HASHES[name][1]
            for last in ((0, 1, bl - 9, bl + 1) if tier == 'quick' else (0, 1, bl // 2, bl - 17, bl - 9, bl - 8, bl - 1, bl, bl + 1, 2 * bl)):
                out.append({'h': name, 'pieces': pieces, 'last': last})
    return out

@obligation(P, 'update/piecewise==one-shot', cls='B', opaque=C1.CNAMES + B.NAMES, cases=_cuts, timeout=200,
            funcs=['crysp.sha.SHA1.update', 'crysp.sha.SHA2.update', 'crysp.md.MD4.update', 'crysp.md.MD5.update', 'crysp.blake.Blake.update', 'crysp.blake.Blake2.update', 'crysp.blake.Blake2.iterblocks', 'crysp.padding.blockiterator.iterblocks'],
            bound='block-aligned pieces of 0..2 blocks (up to three pieces) followed by a final piece of 0..block+1 bytes (up to 2 blocks thorough); contents symbolic')
def _(c):
    name, last = c.case('h'), c.case('last')
    mk, bl = HASHES[name]
    pieces = [int(x) for x in c.case('pieces').split(',')]
    h = mk(); install(c, name, h)
    c.call(type(h).initstate, h)
    allm = []
    for k, nb in enumerate(pieces):
        m = c.bytes('m%d' % k, nb * bl); allm += list(m)
        c.call(type(h).update, h, m)
        c.ensure('bitcnt after piece %d' % k, h.padmethod.bitcnt == 8 * len(allm))
    m = c.bytes('mlast', last); allm += list(m)
    out = c.call(type(h).update, h, m, padding=True)
    h2 = mk(); install(c, name, h2)
    one = c.call(type(h2).__call__, h2, val_bytes(allm))
    c.ensure('digest', val.eq(out, one))

def val_bytes(items):
    if any(getattr(x, '_sym', False) for x in items):
        from pyvc.sbytes import from_items
        return from_items(items)
    return bytes(items)

# ---------------------------------------------------------------- composition at an ARBITRARY state (the unbounded part)
# update(a); update(b, f)  ==  update(a||b, f)  from any chaining value and any bits-before counter, for a one-block a and
# b = one more block (not final) or a final tail of any residue class.  With the loop contracts of iterblocks (C09
# iterblocks/loop-step) and of the compression loop (C01/C11 update/one-block=compress) this is the induction step of
# "the state after update() is the fold of the compression over the blocks fed so far, the counter their bit count";
# the enumerated cut sets above are then instances.
NH = {'md4': 4, 'md5': 4, 'sha1': 5, 'sha0': 5}
def _set_state(h, name, H0, cnt):
    from crysp.bits import Bits
    w = h.wsize
    if name.startswith('blake'): h.H = C11.mkpoly(list(H0), w)
    else:
        h.H = []
        for v in H0:
            b = Bits(0, w); b.ival = v; h.H.append(b)
    h.padmethod.bitcnt = cnt; h.padmethod.padflag = False
def _get_state(h, name):
    Hs = list(h.H.ival) if name.startswith('blake') else [b.ival for b in h.H]
    return Hs, h.padmethod.bitcnt, h.padmethod.padflag
def _compose_cases(tier):
    out = []
    for name in HASHES:
        if tier == 'quick' and name in ('sha0', 'sha224', 'sha384', 'sha512/256', 'blake224'): continue
        bl = HASHES[name][1]; ws = bl // 8
        out.append({'h': name, 'kind': 'mid', 't': bl}); out.append({'h': name, 'kind': 'empty', 't': 0})
        for t in ((0, 1, bl - ws - 1, bl - ws, bl, bl + 1) if tier == 'quick' else range(0, bl + 2)):
            if name.startswith('blake2') and t == 0: continue            # known finding (empty final piece), reported by update/piecewise==one-shot
            out.append({'h': name, 'kind': 'fin', 't': t})
    return out
@obligation(P, 'update/compose/arbitrary-state', cls='L', opaque=C1.CNAMES + B.NAMES, cases=_compose_cases, timeout=300,
            funcs=['crysp.sha.SHA1.update', 'crysp.sha.SHA2.update', 'crysp.md.MD4.update', 'crysp.md.MD5.update', 'crysp.blake.Blake.update', 'crysp.blake.Blake2.update', 'crysp.blake.Blake2.iterblocks', 'crysp.padding.blockiterator.iterblocks'],
            note='for EVERY chaining value and every bits-before counter (a whole number of blocks): feeding one block and then a second block / a final tail '
                 'leaves the same state, counter, flag and digest as feeding their concatenation; an empty piece changes nothing; the thorough tier takes every tail length 0..block+1')
def _(c):
    name, kind, t = c.case('h'), c.case('kind'), c.case('t')
    mk, bl = HASHES[name]
    hA = mk(); install(c, name, hA); hB = mk(); install(c, name, hB)
    hA.initstate(); hB.initstate()
    w = hA.wsize
    H0 = c.words('H', NH.get(name, 8), w)
    cnt = c.int('blocks_before', 0, 1 << 40) * (8 * bl)
    _set_state(hA, name, H0, cnt); _set_state(hB, name, H0, cnt)
    a = c.bytes('a', bl); b = c.bytes('b', t)
    fin = kind == 'fin'
    if kind == 'empty':
        c.call(type(hA).update, hA, b'')
        Hs, bc, pf = _get_state(hA, name)
        c.ensure('empty/state', val.eq(Hs, list(H0))); c.ensure('empty/counter', val.eq(bc, cnt)); c.ensure('empty/flag', pf is False)
        return
    c.call(type(hA).update, hA, a)
    c.ensure('counter after first piece', val.eq(hA.padmethod.bitcnt, cnt + 8 * bl))
    outA = c.call(type(hA).update, hA, b, padding=fin)
    outB = c.call(type(hB).update, hB, val_bytes(list(a) + list(b)), padding=fin)
    sA, sB = _get_state(hA, name), _get_state(hB, name)
    c.ensure('state', val.eq(sA[0], sB[0])); c.ensure('counter', val.eq(sA[1], sB[1]))
    if not fin: c.ensure('counter-value', val.eq(sA[1], cnt + 8 * (bl + t)))       # (after a pad-only last block the counter reads 0: C09)
    c.ensure('flag', sA[2] is sB[2] and sA[2] is fin)
    c.ensure('output', val.eq(outA, outB))

@obligation(P, 'Nilsimsa/piecewise', cls='B', bound='messages of 0..7 bytes, every cut position, two or three pieces; contents symbolic; accumulator state compared, digest of the state compared on concrete inputs',
            cases=lambda tier: [{'n': n, 'cut': cut} for n in range(0, 7 if tier == 'quick' else 9) for cut in range(0, n + 1)], funcs=['crysp.nilsimsa.Nilsimsa.update', 'crysp.nilsimsa.Nilsimsa.reset', 'crysp.nilsimsa.Nilsimsa.tran3'], timeout=300)
def _(c):
    n, cut = c.case('n'), c.case('cut')
    M = c.bytes('M', n)
    a = nilsimsa.Nilsimsa(); b = nilsimsa.Nilsimsa()
    c.call(nilsimsa.Nilsimsa.update, a, M[:cut]); c.call(nilsimsa.Nilsimsa.update, a, M[cut:])
    c.call(nilsimsa.Nilsimsa.update, b, M)
    c.ensure('count', a.count == b.count == n)
    c.ensure('histogram', val.eq(list(a.dacc), list(b.dacc)))
    c.ensure('window', land(val.eq([x for x in a.seen[-4:] if x is not None], [x for x in b.seen[-4:] if x is not None]), [x is None for x in a.seen[-4:]] == [x is None for x in b.seen[-4:]]))

@obligation(P, 'Nilsimsa/digest-concrete', cls='B', native=True, bound='seeded messages of 0..200 bytes, every cut in a sample; digests compared', cases={'seed': [1, 2, 3]}, funcs=['crysp.nilsimsa.Nilsimsa.digest', 'crysp.nilsimsa.Nilsimsa.__call__'])
def _(c):
    import random
    r = random.Random(c.case('seed'))
    for n in (0, 1, 2, 3, 4, 5, 9, 50, 200):
        M = bytes(r.randrange(256) for _ in range(n))
        one = c.call(nilsimsa.Nilsimsa.__call__, nilsimsa.Nilsimsa(), M)
        c.ensure('length', len(one) == 32)
        for cut in sorted({0, 1, 2, 3, 4, n // 2, n - 1, n} & set(range(0, n + 1))):
            o = nilsimsa.Nilsimsa()
            c.ensure('n=%d cut=%d' % (n, cut), o.update(M[:cut]).update(M[cut:]).digest() == one)
        again = nilsimsa.Nilsimsa(); again(M)
        c.ensure('reuse n=%d' % n, again(M) == one)

@obligation(P, 'canary/piecewise', cls='L', canary=True, opaque=C1.CNAMES, funcs=['crysp.sha.SHA2.update'])
def _(c):
    h = sha.SHA2(256); C1.install_update_contract(c, h, 'sha256'); h.initstate()
    m = c.bytes('m', 64); c.call(sha.SHA2.update, h, m)
    out = c.call(sha.SHA2.update, h, b'', padding=True)
    h2 = sha.SHA2(256); C1.install_update_contract(c, h2, 'sha256')
    c.ensure('canary', val.eq(out, c.call(sha.SHA2.__call__, h2, m + b'\0')))
