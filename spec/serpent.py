# Serpent (AES submission, bitslice description) on 32-bit words; the 128-bit state is X0 | X1<<32 | X2<<64 | X3<<96.
# Validated against the submission's known answers (tests of the repository hold the same vectors) in spec/validate.py.
from pyvc.val import select, mask, rol, ror, Opaque, from_bits, bits_of

SBOX = [[3, 8, 15, 1, 10, 6, 5, 11, 14, 13, 4, 2, 7, 0, 9, 12], [15, 12, 2, 7, 9, 0, 5, 10, 1, 11, 14, 8, 6, 13, 3, 4],
        [8, 6, 7, 9, 3, 12, 10, 15, 13, 1, 14, 4, 0, 11, 5, 2], [0, 15, 11, 8, 12, 9, 6, 3, 13, 1, 2, 4, 10, 7, 5, 14],
        [1, 15, 8, 3, 12, 0, 11, 6, 2, 5, 4, 10, 9, 14, 7, 13], [15, 5, 2, 11, 4, 10, 9, 12, 0, 3, 14, 8, 13, 6, 7, 1],
        [7, 2, 12, 5, 8, 4, 6, 11, 14, 9, 1, 15, 13, 3, 10, 0], [1, 13, 15, 0, 14, 8, 2, 11, 7, 4, 12, 10, 9, 3, 5, 6]]
SBOX_INV = [[b.index(v) for v in range(16)] for b in SBOX]
PHI = 0x9e3779b9

def words(x): return [(x >> (32 * i)) & mask(32) for i in range(4)]
def unwords(w): return w[0] | (w[1] << 32) | (w[2] << 64) | (w[3] << 96)

def _sub(table, x):
    w = words(x); out = [0, 0, 0, 0]
    for j in range(32):
        nib = ((w[0] >> j) & 1) | (((w[1] >> j) & 1) << 1) | (((w[2] >> j) & 1) << 2) | (((w[3] >> j) & 1) << 3)
        v = select(table, nib)
        for b in range(4): out[b] = out[b] | (((v >> b) & 1) << j)
    return unwords(out)
def s_layer(i, x): return _sub(SBOX[i % 8], x)
def sinv_layer(i, x): return _sub(SBOX_INV[i % 8], x)

def lt(x):
    X = words(x)
    X[0] = rol(X[0], 13, 32); X[2] = rol(X[2], 3, 32)
    X[1] = X[1] ^ X[0] ^ X[2]; X[3] = X[3] ^ X[2] ^ ((X[0] << 3) & mask(32))
    X[1] = rol(X[1], 1, 32); X[3] = rol(X[3], 7, 32)
    X[0] = X[0] ^ X[1] ^ X[3]; X[2] = X[2] ^ X[3] ^ ((X[1] << 7) & mask(32))
    X[0] = rol(X[0], 5, 32); X[2] = rol(X[2], 22, 32)
    return unwords(X)
def lt_inv(x):
    X = words(x)
    X[2] = ror(X[2], 22, 32); X[0] = ror(X[0], 5, 32)
    X[2] = X[2] ^ X[3] ^ ((X[1] << 7) & mask(32)); X[0] = X[0] ^ X[1] ^ X[3]
    X[3] = ror(X[3], 7, 32); X[1] = ror(X[1], 1, 32)
    X[3] = X[3] ^ X[2] ^ ((X[0] << 3) & mask(32)); X[1] = X[1] ^ X[0] ^ X[2]
    X[2] = ror(X[2], 3, 32); X[0] = ror(X[0], 13, 32)
    return unwords(X)

S = [Opaque('serpent_S%d' % i, (lambda x, i=i: s_layer(i, x)), [128], 128) for i in range(8)]
SINV = [Opaque('serpent_Sinv%d' % i, (lambda x, i=i: sinv_layer(i, x)), [128], 128) for i in range(8)]
L = Opaque('serpent_L', lt, [128], 128)
LINV = Opaque('serpent_Linv', lt_inv, [128], 128)
NAMES = ['serpent_S%d' % i for i in range(8)] + ['serpent_Sinv%d' % i for i in range(8)] + ['serpent_L', 'serpent_Linv']

def pad_key(key_bytes):
    """key of 0..32 bytes -> 256-bit integer (little-endian words): short keys get a 1 bit then zeros"""
    k = 0
    for i, b in enumerate(key_bytes): k = k | (b << (8 * i))
    if len(key_bytes) < 32: k = k | (1 << (8 * len(key_bytes)))
    return k

def round_keys(k256):
    w = [(k256 >> (32 * i)) & mask(32) for i in range(8)]
    for i in range(132):
        w.append(rol(w[-8] ^ w[-5] ^ w[-3] ^ w[-1] ^ PHI ^ i, 11, 32))
    w = w[8:]
    return [S[(3 - i) % 8](unwords(w[4 * i:4 * i + 4])) for i in range(33)]

def encrypt_rk(K, x):
    for i in range(31): x = L(S[i % 8](x ^ K[i]))
    return S[7](x ^ K[31]) ^ K[32]
def decrypt_rk(K, x):
    x = SINV[7](x ^ K[32]) ^ K[31]
    for i in range(30, -1, -1): x = SINV[i % 8](LINV(x)) ^ K[i]
    return x

def encrypt(key, blk):
    x = encrypt_rk(round_keys(pad_key(key)), int.from_bytes(bytes(blk), 'little'))
    return list(x.to_bytes(16, 'little'))
def decrypt(key, blk):
    x = decrypt_rk(round_keys(pad_key(key)), int.from_bytes(bytes(blk), 'little'))
    return list(x.to_bytes(16, 'little'))
