# Native replay of a counterexample: runs under the repository's own interpreter
# (/venv/bin/python), no engine, no z3 -- the real functions on the model's inputs.
import sys, json, random, importlib, os
sys.dont_write_bytecode = True

def find(prop, oid):
    from pyvc import oblig
    obs = oblig.load(prop)
    best = None
    for ob in obs:
        if oid == ob.oid or oid.startswith(ob.oid + '/'):
            if best is None or len(ob.oid) > len(best.oid): best = ob
    return best

def case_of(ob, oid, tier='thorough'):
    for iid, case in ob.instances(tier):
        if iid == oid: return case
    return None

def main():
    path = sys.argv[1]
    search = int(sys.argv[sys.argv.index('--search') + 1]) if '--search' in sys.argv else 0
    doc = json.load(open(path))
    # the replay must run the tree the verification conditions came from, never another installed copy of the package
    import crysp
    want = os.path.realpath(os.environ.get('PYVC_REPO', '/repo'))
    if not os.path.realpath(crysp.__file__).startswith(want + os.sep):
        print(json.dumps({'outcome': 'error', 'stderr': 'replay would import crysp from %s, not from %s' % (crysp.__file__, want)})); return 2
    from pyvc import oblig
    ob = find(doc['property'], doc['obligation'])
    if ob is None:
        print(json.dumps({'outcome': 'error', 'stderr': 'obligation not found'})); return 2
    case = case_of(ob, doc['obligation'])
    if case is None: case = doc.get('case') or {}
    inputs = doc.get('inputs') or {}
    r = oblig.run_concrete(ob, case, inputs)
    r['tried'] = 1
    if r['outcome'] != 'fails' and search:
        # native falsification search: same obligation body, seeded random inputs in the declared ranges
        rng = random.Random(int(os.environ.get('VERIF_SEED', '0')) * 1000003 + 17)
        class RCtx(oblig.ConcreteCtx):
            plan = 'random'
            def int(self, name, lo, hi):
                if name in self.inputs: v = self.inputs[name]
                else:
                    if self.plan == 'lo': v = lo
                    elif self.plan == 'hi': v = hi
                    elif self.plan.startswith('hi-'):          # every symbol at its maximum, the last ones one/two below
                        v = hi
                    else:
                        k = rng.random()
                        v = lo if k < 0.05 else hi if k < 0.1 else rng.randint(lo, hi)
                    self.inputs[name] = v
                self.asked[name] = v
                return v
        plans = ['lo', 'hi', 'hi-1', 'hi-2'] + ['random'] * search
        for k, plan in enumerate(plans):
            c = RCtx({}, case); c.plan = plan
            if plan in ('hi-1', 'hi-2'):
                # first pass to learn the symbols, then lower the last one
                probe = RCtx({}, case); probe.plan = 'hi'
                try: ob.fn(probe)
                except BaseException: pass
                names = list(probe.asked)
                if names: c.inputs = dict(probe.asked); c.inputs[names[-1]] = max(0, probe.asked[names[-1]] - int(plan[3:]))
            exc = None
            try: ob.fn(c)
            except oblig.Failure: continue
            except ImportError as e:
                r = {'outcome': 'error', 'failures': [], 'exception': None, 'stderr': 'harness import error: %s' % e, 'tried': r['tried']}; break
            except BaseException as e: exc = '%s: %s' % (type(e).__name__, e)
            r['tried'] += 1
            if exc or c.failures:
                r = {'outcome': 'fails', 'failures': [(l, {a: repr(b) for a, b in i.items()}) for l, i in c.failures], 'exception': exc,
                     'asked': c.asked, 'tried': r['tried'], 'found_by': 'native falsification search'}
                doc['inputs'] = c.asked; doc['found_by'] = 'native falsification search'
                json.dump(doc, open(path, 'w'), indent=1, default=str)
                break
    if r['outcome'] == 'fails':
        print('REPLAY obligation=%s FAILS natively: %s %s' % (doc['obligation'], r['failures'][:1], r['exception'] or ''))
    print(json.dumps(r, default=str))
    return 1 if r['outcome'] == 'fails' else 0

if __name__ == '__main__':
    sys.exit(main())
