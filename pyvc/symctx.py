# Symbolic obligation context and the per-obligation worker: path exploration through
# the real code, VC construction, discharge with z3 (cvc5 as second opinion), models.
import os, sys, time, json, subprocess, tempfile, random, hashlib, traceback, signal
import z3
from . import val, canon, contracts as CT
from .sym import (SymInt, SymBool, EngineError, LeakError, fresh, lift, uterm, from_term, bterm, land, lnot, mkbool)
from .sbytes import SBytes, from_items
from .interp import Interp, explore, Infeasible, PathLimit, IStopIteration
from .oblig import BaseCtx, ConcreteCtx, Failure, run_concrete

def uf_apply(op, args):
    flat = list(val._flat(args))
    if len(flat) != len(op.arg_bits):
        raise EngineError('opaque %s: %d arguments, %d declared' % (op.name, len(flat), len(op.arg_bits)))
    terms = [uterm(a, w) for a, w in zip(flat, op.arg_bits)]
    outs = op.out_bits if isinstance(op.out_bits, (tuple, list)) else (op.out_bits,)
    inv = INVERSES.get(op.name)
    if inv is not None:
        # proved lemma  op(k.., inv(k.., x)) == x  applied as a rewrite: cancel syntactically when the data argument is inv(...)
        ts = [z3.simplify(t) for t in terms]
        d = ts[-1]
        if z3.is_app(d) and d.decl().name() == inv + '#0' and d.num_args() == len(ts) and all(a.eq(b) for a, b in zip(ts[:-1], d.children()[:-1])):
            return from_term(d.arg(len(ts) - 1))
        terms = ts
    res = []
    for k, w in enumerate(outs):
        if not op.arg_bits:
            res.append(from_term(z3.BitVec('%s#%d' % (op.name, k), w))); continue
        f = z3.Function('%s#%d' % (op.name, k), *([z3.BitVecSort(b) for b in op.arg_bits] + [z3.BitVecSort(w)]))
        res.append(from_term(f(*terms)))
    return tuple(res) if isinstance(op.out_bits, (tuple, list)) else res[0]

INVERSES = {}      # opaque name -> name of the opaque function it inverts (set by axiom_inverse, per obligation)

class SymCtx(BaseCtx):
    mode = 'sym'
    def __init__(self, interp, case=None):
        super().__init__(case)
        self.I = interp
        self.goals = []
        self.symbols = {}
        self.notes = []
    def int(self, name, lo, hi):
        if name in self.symbols: raise EngineError('duplicate symbol ' + name)
        v = fresh(name, lo, hi)
        self.symbols[name] = (v, lo, hi)
        if isinstance(v, SymInt):
            # the bit-vector variable ranges over its whole width: constrain it to the declared interval
            if v.signed:
                self.I.solver.add(v.t >= z3.BitVecVal(lo, v.w), v.t <= z3.BitVecVal(hi, v.w))
            else:
                if lo > 0: self.I.solver.add(z3.UGE(v.t, z3.BitVecVal(lo, v.w)))
                if hi < (1 << v.w) - 1: self.I.solver.add(z3.ULE(v.t, z3.BitVecVal(hi, v.w)))
        return v
    def bytes(self, name, n):
        return from_items([self.int('%s[%d]' % (name, i), 0, 255) for i in range(n)])
    def tail(self, name):
        """a message of ARBITRARY length and content (see sbytes.SBytesT); in concrete mode a byte string of some length"""
        from .sbytes import SBytesT
        return SBytesT((), self.int(name + '#', 0, (1 << 64) - 1))
    def call(self, f, *a, **k):
        return self.I.call(f, a, k)
    def binop(self, op, a, b):
        if op in _CMP: return self.I.compare(_CMP[op], a, b)
        return self.I.binop(_BIN[op], a, b)
    def unop(self, op, a):
        return self.I.eval(_ast.UnaryOp(op=_UN[op](), operand=_ast.Name(id='x')), _Env1(a))
    def getitem(self, o, i): return self.I.subscript(o, i)
    def setitem(self, o, i, v): return self.I.store_sub(o, i, v)
    def getattr(self, o, n): return self.I.getattr(o, n)
    def setattr(self, o, n, v): return self.I.setattr(o, n, v)
    def len(self, o): return self.I.call(len, (o,))
    def list(self, o): return list(self.I.iter(o))
    def replace(self, f, handler):
        self.I.contracts[f] = handler
    def loop_contract(self, qualname, ordinal, handler):
        self.I.loop_contracts[(qualname, ordinal)] = handler
    def loop_body(self, f, ordinal, local_vars):
        from .interp import find_node, Env, enclosing_class, Break, Continue
        import types
        if isinstance(f, types.MethodType): f = f.__func__
        node = find_node(f)
        stmt = None
        todo = list(node.body)
        while todo:
            st = todo.pop(0)
            if getattr(st, '_loopkey', None) == (node._qual, ordinal): stmt = st; break
            if isinstance(st, (_ast.FunctionDef, _ast.ClassDef)): continue
            todo = list(_ast.iter_child_nodes(st)) + todo
        if stmt is None: raise EngineError('loop %d of %s not found' % (ordinal, node._qual))
        # the obligation names the locals of the loop: if the code's locals have been renamed the OBLIGATION is out of date
        # (undecided), which must not be mistaken for a NameError of the code
        assigned = {a.arg for a in node.args.args + node.args.kwonlyargs} | {n.id for n in _ast.walk(node) if isinstance(n, _ast.Name) and isinstance(n.ctx, _ast.Store)}
        if node.args.vararg: assigned.add(node.args.vararg.arg)
        if node.args.kwarg: assigned.add(node.args.kwarg.arg)
        inner = {n.id for b in stmt.body for n in _ast.walk(b) if isinstance(n, _ast.Name) and isinstance(n.ctx, _ast.Store)}
        loaded = {n.id for b in stmt.body for n in _ast.walk(b) if isinstance(n, _ast.Name) and isinstance(n.ctx, _ast.Load)}
        missing = sorted(x for x in loaded if x in assigned and x not in local_vars and x not in inner)
        if missing: raise EngineError('loop-step obligation for %s#%d does not provide the local(s) %s of the current code' % (node._qual, ordinal, missing))
        stale = sorted(x for x in local_vars if x not in assigned and x != 'self')
        if stale: raise EngineError('loop-step obligation for %s#%d names the local(s) %s which the current code does not have' % (node._qual, ordinal, stale))
        env = Env(f.__globals__, None, cls=enclosing_class(node))
        env.vars.update(local_vars); env.selfobj = local_vars.get('self')
        ys = []
        try:
            for y in self.I.exec_block(stmt.body, env): ys.append(y)
        except (Break, Continue):
            pass
        except NameError as e:
            name = getattr(e, 'name', None) or (e.args[0] if e.args else None)
            if name in assigned and name not in local_vars:
                raise EngineError('loop-step obligation for %s#%d does not provide the local %r of the current code' % (node._qual, ordinal, name))
            raise
        self.I.evaluated.add(node._qual + '#loop%d' % ordinal)
        return ys, _Locals(env.vars, node._qual, ordinal)
    def axiom_inverse(self, f, g, proved_by):
        """forall k..,x. g(k.., f(k.., x)) == x : the last argument is the data, the others are shared parameters"""
        assert f.arg_bits == g.arg_bits and f.out_bits == f.arg_bits[-1] and g.out_bits == f.arg_bits[-1]
        INVERSES[g.name] = f.name
        self.I.used_contracts.add('axiom %s(%s(x))==x [proved by %s]' % (g.name, f.name, proved_by))
    def assume(self, cond):
        self.I.assume(cond)
    def ensure(self, label, cond, **info):
        self.goals.append((label, cond))
    def _is_engine_error(self, e):
        return isinstance(e, (EngineError, Infeasible, IStopIteration))
    def note(self, *a, **k): self.notes.append((a, k))

import ast as _ast
class _Locals(dict):
    def __init__(self, d, qual, ordinal): dict.__init__(self, d); self._q = (qual, ordinal)
    def __missing__(self, k): raise EngineError('loop-step obligation for %s#%d reads the local %r which the current code does not have' % (self._q + (k,)))
_BIN = {'+': _ast.Add, '-': _ast.Sub, '*': _ast.Mult, '&': _ast.BitAnd, '|': _ast.BitOr, '^': _ast.BitXor, '<<': _ast.LShift,
        '>>': _ast.RShift, '//': _ast.FloorDiv, '%': _ast.Mod}
_CMP = {'==': _ast.Eq, '!=': _ast.NotEq, '<': _ast.Lt, '<=': _ast.LtE, '>': _ast.Gt, '>=': _ast.GtE}
_UN = {'-': _ast.USub, '~': _ast.Invert, '+': _ast.UAdd}
class _Env1:
    def __init__(self, x): self.x = x
    def lookup(self, name): return self.x

class ReplayInterpCtx(ConcreteCtx):
    """concrete inputs, but calls go through the AST evaluator (differential self-validation)"""
    def __init__(self, inputs, case, interp):
        super().__init__(inputs, case); self.I = interp; self.trace = []
    def call(self, f, *a, **k):
        r = self.I.call(f, a, k)
        self.trace.append(digest(r))
        return r
    def _t(self, r): self.trace.append(digest(r)); return r
    def binop(self, op, a, b): return self._t(SymCtx.binop(self, op, a, b))
    def unop(self, op, a): return self._t(SymCtx.unop(self, op, a))
    def getitem(self, o, i): return self._t(self.I.subscript(o, i))
    def setitem(self, o, i, v): return self._t(self.I.store_sub(o, i, v))
    def getattr(self, o, n): return self._t(self.I.getattr(o, n))
    def setattr(self, o, n, v): return self._t(self.I.setattr(o, n, v))
    def len(self, o): return self._t(self.I.call(len, (o,)))
    def list(self, o): return self._t(list(self.I.iter(o)))
    def loop_body(self, f, ordinal, local_vars): return SymCtx.loop_body(self, f, ordinal, local_vars)

class TraceCtx(ConcreteCtx):
    def __init__(self, inputs, case):
        super().__init__(inputs, case); self.trace = []
    def call(self, f, *a, **k):
        r = f(*a, **k)
        self.trace.append(digest(r))
        return r

def digest(r, depth=0):
    t = type(r).__name__
    if isinstance(r, (int, bytes, str, bool, type(None))): return repr(r)
    if isinstance(r, (list, tuple)): return '[' + ','.join(digest(x, depth + 1) for x in r) + ']'
    if t in ('Bits', 'Tweak'): return 'Bits(%d,%d)' % (r.ival, r.size)
    if t in ('Poly', 'SubPoly'): return 'Poly(%r,%d)' % (r.ival, r.size)
    if hasattr(r, '__next__') or t == 'IGen': return 'iter'
    if hasattr(r, '__dict__') and depth < 2: return t + '{' + ','.join('%s=%s' % (k, digest(v, depth + 1)) for k, v in sorted(vars(r).items())) + '}'
    return t

def safe_str(e):
    try: return str(e)
    except Exception: return '<%s>' % ', '.join(type(a).__name__ for a in getattr(e, 'args', ()))

class Timeout(BaseException): pass
def _alarm(sig, frm): raise Timeout()

def solve(assertions, negated_goal, timeout_ms):
    """-> (verdict, model|None, seconds, backend)"""
    t0 = time.time()
    s = z3.Solver()
    s.set('timeout', int(timeout_ms))
    s.set('random_seed', 0)
    s.add(*assertions); s.add(negated_goal)
    r = s.check()
    dt = time.time() - t0
    if r == z3.unsat: return 'unsat', None, dt, 'z3'
    if r == z3.sat: return 'sat', s.model(), dt, 'z3'
    # second opinion: cvc5 on the SMT-LIB export
    try:
        smt = s.to_smt2()
        with tempfile.NamedTemporaryFile('w', suffix='.smt2', delete=False) as f:
            f.write('(set-logic ALL)\n' + smt); fn = f.name
        try:
            p = subprocess.run(['/usr/bin/cvc5', '--lang=smt2', '--tlimit=%d' % int(timeout_ms), fn],
                               capture_output=True, text=True, timeout=timeout_ms / 1000 + 10)
            out = p.stdout.strip().split('\n')[0] if p.stdout.strip() else ''
        finally:
            os.unlink(fn)
        dt = time.time() - t0
        if out == 'unsat': return 'unsat', None, dt, 'cvc5'
        # cvc5 'sat' without a model is not accepted as a refutation (only z3 models or native failures are)
    except Exception as e:
        pass
    return 'unknown', None, time.time() - t0, 'z3+cvc5'

def model_inputs(model, symbols):
    out = {}
    for name, (v, lo, hi) in symbols.items():
        if not isinstance(v, SymInt): out[name] = v; continue
        x = model.eval(v.t, model_completion=True)
        out[name] = x.as_signed_long() if v.signed else x.as_long()
    return out

def run_instance(ob, iid, case, tier, seed, default_timeout=120):
    """worker body: returns a JSON-able result dict for one obligation instance"""
    t0 = time.time()
    res = {'id': iid, 'cls': ob.cls, 'funcs': list(ob.funcs), 'case': {k: (v.hex() if isinstance(v, bytes) else v) for k, v in case.items()},
           'status': None, 'paths': 0, 'goals': 0, 'solver_s': 0.0, 'backend': {}, 'used_contracts': [], 'evaluated': [],
           'canary': ob.canary, 'bound': ob.bound, 'opaque': list(ob.opaque), 'note': ob.note, 'sufficient': ob.sufficient}
    tmo = ob.timeout or default_timeout
    signal.signal(signal.SIGALRM, _alarm)
    signal.alarm(int(tmo * 4 + 60))
    try:
        if ob.cls == 'E' or ob.native:
            _run_enum(ob, case, res)
        else:
            _run_symbolic(ob, case, res, tmo, seed)
    except Timeout:
        res['status'] = 'undecided'; res['reason'] = 'wall-clock limit for the obligation exceeded'
    except (EngineError, PathLimit) as e:
        res['status'] = 'undecided'; res['reason'] = '%s: %s' % (type(e).__name__, e)
        res['trace'] = traceback.format_exc()[-1500:]
    except RecursionError as e:
        res['status'] = 'undecided'; res['reason'] = 'recursion limit in the evaluator'
    finally:
        signal.alarm(0)
    res['wall_s'] = round(time.time() - t0, 3)
    return res

def _run_enum(ob, case, res):
    import itertools
    dom = (ob.domain(case) if callable(ob.domain) else ob.domain) or {}
    names = list(dom)
    n = 0
    for point in itertools.product(*[list(dom[k]) for k in names]):
        inputs = dict(zip(names, point))
        r = run_concrete(ob, case, inputs)
        n += 1
        if r['outcome'] == 'fails':
            res.update(status='refuted', inputs=inputs, label=(r['failures'][0][0] if r['failures'] else 'exception'),
                       detail=r, points=n)
            return
    res.update(status='discharged', points=n, paths=n, goals=n)
    res['backend'] = {'enumeration': n}

def _run_symbolic(ob, case, res, tmo, seed):
    contracts = CT.resolve(ob.use, ob.funcs)
    val.ACTIVE = set(ob.opaque)
    INVERSES.clear()
    holder = []
    def run(I):
        c = SymCtx(I, case)
        holder.append(c)
        try:
            ob.fn(c)
        except Failure:
            raise Infeasible()
        return c
    paths = explore(run, max_paths=ob.max_paths, contracts=contracts)
    res['paths'] = len(paths)
    if not paths:
        res.update(status='vacuous', reason='no feasible path (contradictory assumptions)'); return
    used = set(); evaluated = set(); ngoals = 0
    refuted = None; undecided = None; probed = False
    for I, outcome in paths:
        used |= I.used_contracts; evaluated |= I.evaluated
        pc = list(I.solver.assertions())
        if outcome[0] == 'exc':
            # the real code (or the body) raised on a feasible path: witness = any model of the path condition
            e = outcome[1]
            c = _ctx_of(holder, I)
            v, m, dt, be = solve(pc, z3.BoolVal(True), tmo * 1000)
            res['solver_s'] += dt
            inputs = model_inputs(m, c.symbols) if m is not None else {}
            tb = ''.join(traceback.format_tb(e.__traceback__))[-1200:]
            refuted = {'label': 'unexpected %s' % type(e).__name__, 'inputs': inputs, 'detail': '%s: %s' % (type(e).__name__, safe_str(e)), 'trace': tb}
            break
        c = outcome[1]
        goals = [(l, g) for l, g in c.goals]
        ngoals += len(goals)
        terms = []
        false_label = None
        for l, g in goals:
            if isinstance(g, (SymBool, SymInt)): terms.append((l, bterm(g)))
            elif not g: false_label = l; break
        if false_label is not None:
            v, m, dt, be = solve(pc, z3.BoolVal(True), tmo * 1000)
            res['solver_s'] += dt
            inputs = model_inputs(m, c.symbols) if m is not None else {}
            refuted = {'label': false_label, 'inputs': inputs, 'detail': 'postcondition is false on a feasible path'}
            break
        if not terms: continue
        # each postcondition is its own query (after a cheap syntactic attempt): a conjunction of many goals is
        # much harder for the solver than its members, and a named goal is what a violation report needs
        stop = False
        for l, t in terms:
            # 1. z3's rewriter, under a short budget (it can blow up on deep if-then-else nests)
            ts = t
            try:
                g = z3.Goal(); g.add(t)
                rr = z3.TryFor(z3.Tactic('simplify'), 8000)(g)
                ts = rr[0].as_expr() if len(rr) == 1 else t
            except z3.Z3Exception:
                ts = t
            if z3.is_true(ts):
                res['backend']['rewriter'] = res['backend'].get('rewriter', 0) + 1
                continue
            # 2. a large goal that the rewriter did not close: a few concrete runs of the same obligation body first (a failing
            #    one is a counterexample of the real code, replayed natively by the driver like a solver model) -- the
            #    canonical form and the solvers can take minutes on such a goal before giving up
            if not probed and _dag_exceeds(ts, 30000):
                probed = True
                hit = _probe(ob, case, c.symbols, seed)
                if hit is not None:
                    refuted = {'label': hit[0], 'inputs': hit[1], 'detail': 'concrete run of the obligation body (found before the solvers were asked)'}
                    stop = True
                    break
            # 3. the GF(2)-affine / adder canonical form
            try:
                if canon.closes(t) or (ts is not t and canon.closes(ts)):
                    res['backend']['gf2-canon'] = res['backend'].get('gf2-canon', 0) + 1
                    continue
            except RecursionError:
                pass
            v, m, dt, be = solve(pc, z3.Not(ts), tmo * 1000)
            res['solver_s'] += dt
            res['backend'][be] = res['backend'].get(be, 0) + 1
            if v == 'unsat': continue
            if v == 'sat':
                refuted = {'label': l, 'inputs': model_inputs(m, c.symbols), 'detail': 'solver model (%s)' % be}
            elif v == 'sat-nomodel':
                refuted = {'label': l, 'inputs': {}, 'detail': 'cvc5 reports sat; z3 unknown; no model'}
            else:
                undecided = 'solver unknown on both back ends after %.0fs (clause %s)' % (dt, l)
            stop = True
            break
        if stop: break
    res['goals'] = ngoals
    res['used_contracts'] = sorted(used); res['evaluated'] = sorted(evaluated)
    res['solver_s'] = round(res['solver_s'], 3)
    if refuted and ob.cls == 'I' and refuted.get('inputs') and not ob.canary:
        # a loop body cannot be started natively; the solver's model is replayed with CONCRETE values through the evaluator
        # on the same source text (real objects, CPython arithmetic): it must fail there too, or the refutation is the engine's fault
        try:
            val.ACTIVE = set()
            rc = ReplayInterpCtx(dict(refuted['inputs']), case, Interp())
            exc = None
            try: ob.fn(rc)
            except Failure: exc = 'assumption'
            except EngineError as e: exc = 'engine: %s' % e
            except Exception as e: exc = '%s: %s' % (type(e).__name__, safe_str(e))
            refuted['evaluator_replay'] = {'outcome': 'fails' if (rc.failures or (exc and exc != 'assumption' and not exc.startswith('engine'))) else 'holds',
                                           'failures': [l for l, i in rc.failures][:5], 'exception': exc}
        except Exception as e:
            refuted['evaluator_replay'] = {'outcome': 'error', 'exception': '%s: %s' % (type(e).__name__, e)}
        finally:
            val.ACTIVE = set(ob.opaque)
    if refuted:
        res.update(status='refuted', **refuted)
    elif undecided:
        res.update(status='undecided', reason=undecided)
    elif ngoals == 0:
        res.update(status='vacuous', reason='no postcondition was generated')
    else:
        res['status'] = 'discharged'
        res['selfcheck'] = _differential(ob, case, seed, holder[-1].symbols, contracts)

def _dag_exceeds(t, limit):
    seen = set(); stack = [t]
    while stack:
        x = stack.pop()
        i = x.get_id()
        if i in seen: continue
        seen.add(i)
        if len(seen) > limit: return True
        stack.extend(x.children())
    return False

def _probe(ob, case, symbols, seed, n=3):
    rng = random.Random(seed * 7919 + 5)
    for k in range(n):
        inputs = {name: rng.randint(lo, hi) for name, (v, lo, hi) in symbols.items() if isinstance(v, SymInt)}
        r = run_concrete(ob, case, inputs)
        if r['outcome'] == 'fails':
            return (r['failures'][0][0] if r['failures'] else 'exception: %s' % r['exception']), r['asked']
    return None

def _ctx_of(holder, I):
    for c in reversed(holder):
        if c.I is I: return c
    return holder[-1]

def _differential(ob, case, seed, symbols, contracts, n=2):
    """concrete differential: the evaluator and native CPython must agree on every call of the body"""
    rng = random.Random((seed, ob.oid).__repr__())
    agree = 0
    val.ACTIVE = set()          # concrete runs evaluate every spec function by its body
    for k in range(n):
        inputs = {name: rng.randint(lo, hi) for name, (v, lo, hi) in symbols.items()}
        a = TraceCtx(inputs, case)
        ea = eb = None
        try: ob.fn(a)
        except Failure: continue
        except Exception as e: ea = type(e).__name__
        I = Interp()
        b = ReplayInterpCtx(inputs, case, I)
        try: ob.fn(b)
        except Failure: continue
        except Exception as e: eb = type(e).__name__
        if ea != eb or a.trace != b.trace or [f[0] for f in a.failures] != [f[0] for f in b.failures]:
            return {'agree': agree, 'mismatch': {'inputs': inputs, 'native': (ea, a.trace[:3]), 'engine': (eb, b.trace[:3])}}
        agree += 1
    return {'agree': agree}
