# C03  Every block cipher is a permutation: dec inverts enc, and so do their parts.
# Component pairs are proved on the code's own tables (independent of the specification tables);
# cipher-level round trips are lemmas over the layer contracts plus the inverse lemmas.
from pyvc.oblig import obligation
from pyvc import val
from pyvc.val import land, lor, lnot, mask
from spec import aes as A, des as D
import crysp.aes as aes, crysp.des as des
from crysp.poly import Poly
from crysp.bits import Bits
from crysp.utils import operators as OPS
from props.aes_common import *
from props.des_common import *

P = 'C03'

# =====================================================================  AES
@obligation(P, 'crysp.aes.Sbox-Sbox_inv/inverse', cls='E', funcs=['crysp.aes.Sbox', 'crysp.aes.Sbox_inv'], domain={})
def _(c):
    st = Poly(list(range(256)), 8)
    f = c.call(aes.Sbox, st); g = c.call(aes.Sbox_inv, st)
    c.ensure('inv(sbox(x))==x', c.call(aes.Sbox_inv, f).ival == list(range(256)))
    c.ensure('sbox(inv(x))==x', c.call(aes.Sbox, g).ival == list(range(256)))
    c.ensure('bytes', all(0 <= v < 256 for v in f.ival + g.ival))

AES_PAIRS = [('ShiftRows', 'InvShiftRows'), ('InvShiftRows', 'ShiftRows'), ('MixColumns', 'InvMixColumns'), ('InvMixColumns', 'MixColumns'),
             ('SubBytes', 'InvSubBytes'), ('InvSubBytes', 'SubBytes')]
@obligation(P, 'crysp.aes.AES.layer-pairs/inverse', cls='L', cases={'pair': ['%s,%s' % p for p in AES_PAIRS]}, timeout=300,
            funcs=['crysp.aes.AES.ShiftRows', 'crysp.aes.AES.InvShiftRows', 'crysp.aes.AES.MixColumns', 'crysp.aes.AES.InvMixColumns', 'crysp.aes.AES.SubBytes', 'crysp.aes.AES.InvSubBytes'])
def _(c):
    f, g = c.case('pair').split(',')
    # gmul through its contract (C02 aes.gmul/post); the S-box tables are evaluated as they are (256-way selects)
    def h_gmul(I, args, kw):
        a, n = args
        if not isinstance(n, int): return NotImplemented
        return (A.gf_mul(a, n),)
    c.replace(aes.gmul, h_gmul)
    a = aes.AES(bytes(16))
    n = 4 if 'Sub' in f else 16          # the byte substitution acts bytewise: 4 symbolic bytes exercise the same code
    st = sym_state(c); s0 = list(st.ival)
    if 'Sub' in f:
        for i in range(4, 16): st.ival[i] = 0x10 * i
        s0 = list(st.ival)
    c.call(getattr(aes.AES, f), a, st)
    c.call(getattr(aes.AES, g), a, st)
    c.ensure('roundtrip', val.eq(st.ival, s0))
    c.ensure('shape', len(st.ival) == 16)

@obligation(P, 'crysp.aes.AES.AddRoundKey/involution', cls='L', funcs=['crysp.aes.AES.AddRoundKey'])
def _(c):
    a = aes.AES(bytes(16)); st = sym_state(c); s0 = list(st.ival)
    w = []
    for i in range(4):
        p = Poly([0] * 4, 8); p.ival = c.words('w%d' % i, 4, 8); w.append(p)
    c.call(aes.AES.AddRoundKey, a, st, w); c.call(aes.AES.AddRoundKey, a, st, w)
    c.ensure('twice', val.eq(st.ival, s0))

def _aes_axioms(c):
    for f, g in (('sub_bytes', 'inv_sub_bytes'), ('shift_rows', 'inv_shift_rows'), ('mix_columns', 'inv_mix_columns')):
        c.axiom_inverse(A.OPL[f], A.OPL[g], 'C03 crysp.aes.AES.layer-pairs/inverse')
        c.axiom_inverse(A.OPL[g], A.OPL[f], 'C03 crysp.aes.AES.layer-pairs/inverse')

@obligation(P, 'crysp.aes.AES/roundtrip', cls='L', opaque=A.LAYER_NAMES, cases={'nk': [4, 6, 8], 'dir': ['dec(enc)', 'enc(dec)']}, timeout=300,
            funcs=['crysp.aes.AES.enc', 'crysp.aes.AES.dec'])
def _(c):
    nk = c.case('nk')
    install_layer_contracts(c, nk); _aes_axioms(c)
    a, key = mk_aes(c, nk)
    blk = c.bytes('B', 16)
    if c.case('dir') == 'dec(enc)':
        mid = c.call(aes.AES.enc, a, blk); out = c.call(aes.AES.dec, a, mid)
    else:
        mid = c.call(aes.AES.dec, a, blk); out = c.call(aes.AES.enc, a, mid)
    c.ensure('identity', val.eq(out, blk))
    c.ensure('length', land(len(mid) == 16, len(out) == 16))

# =====================================================================  DES / TDEA
@obligation(P, 'crysp.des.IP-IPinv/inverse', cls='L', funcs=['crysp.des.IP', 'crysp.des.IPinv'])
def _(c):
    x = c.bits('x', 64)
    c.ensure('IPinv(IP(x))', val.eq(c.call(des.IPinv, c.call(des.IP, x)).ival, x.ival))
    c.ensure('IP(IPinv(x))', val.eq(c.call(des.IP, c.call(des.IPinv, x)).ival, x.ival))

@obligation(P, 'crysp.des.DES/roundtrip', cls='L', opaque=DES_F, cases={'dir': ['dec(enc)', 'enc(dec)']}, funcs=['crysp.des.DES.enc', 'crysp.des.DES.dec'])
def _(c):
    install_F_contract(c)
    key = c.bytes('K', 8); blk = c.bytes('B', 8)
    d = c.call(des.DES, key)
    if c.case('dir') == 'dec(enc)':
        mid = c.call(des.DES.enc, d, blk); out = c.call(des.DES.dec, d, mid)
    else:
        mid = c.call(des.DES.dec, d, blk); out = c.call(des.DES.enc, d, mid)
    c.ensure('identity', val.eq(out, blk))
    c.ensure('length', land(len(mid) == 8, len(out) == 8))

@obligation(P, 'crysp.des.TDEA/roundtrip', cls='L', opaque=['des_enc', 'des_dec'], cases={'form': ['1x8', '1x16', '1x24', 'k1,k2', 'k1,k2,k3'], 'dir': ['dec(enc)', 'enc(dec)']},
            funcs=['crysp.des.TDEA.enc', 'crysp.des.TDEA.dec', 'crysp.des.TDEA.__init__'])
def _(c):
    install_DES_contract(c)
    c.axiom_inverse(D.ENC, D.DEC, 'C03 crysp.des.DES/roundtrip'); c.axiom_inverse(D.DEC, D.ENC, 'C03 crysp.des.DES/roundtrip')
    form = c.case('form')
    ks = [c.bytes('K%d' % i, 8) for i in (1, 2, 3)]
    if form == '1x8': t = c.call(des.TDEA, ks[0])
    elif form == '1x16': t = c.call(des.TDEA, ks[0] + ks[1])
    elif form == '1x24': t = c.call(des.TDEA, ks[0] + ks[1] + ks[2])
    elif form == 'k1,k2': t = c.call(des.TDEA, ks[0], ks[1])
    else: t = c.call(des.TDEA, ks[0], ks[1], ks[2])
    blk = c.bytes('B', 8)
    if c.case('dir') == 'dec(enc)':
        mid = c.call(des.TDEA.enc, t, blk); out = c.call(des.TDEA.dec, t, mid)
    else:
        mid = c.call(des.TDEA.dec, t, blk); out = c.call(des.TDEA.enc, t, mid)
    c.ensure('identity', val.eq(out, blk))
    c.ensure('length', land(len(mid) == 8, len(out) == 8))

# =====================================================================  rotations (all widths in the list, every amount)
def _rot_sizes(tier):
    return list(range(1, 34)) + [48, 63, 64, 65, 96, 127, 128] if tier == 'quick' else list(range(1, 130)) + [255, 256, 257, 512, 1024]
@obligation(P, 'crysp.utils.operators.rol-ror/inverse', cls='B', bound='widths 1..33 and 48,63,64,65,96,127,128 (quick) / 1..129 and up to 1024 (thorough); every amount 0..width; values complete',
            funcs=['crysp.utils.operators.rol', 'crysp.utils.operators.ror'], cases=lambda tier: [{'m': m} for m in _rot_sizes(tier)])
def _(c):
    m = c.case('m')
    a = c.bits('a', m); v0 = a.ival
    ks = range(0, m + 1) if m <= 65 else sorted({0, 1, 2, 7, 13, 31, 32, 33, 63, 64, 65, m // 2, m - 1, m})
    for k in ks:
        r = c.call(OPS.rol, a, k); q = c.call(OPS.ror, a, k)
        c.ensure('rol%d/exact' % k, land(val.eq(r.ival, val.rol(v0, k, m)), r.size == m))
        c.ensure('ror%d/exact' % k, land(val.eq(q.ival, val.ror(v0, k, m)), q.size == m))
        c.ensure('ror(rol)%d' % k, val.eq(c.call(OPS.ror, r, k).ival, v0))
        c.ensure('rol(ror)%d' % k, val.eq(c.call(OPS.rol, q, k).ival, v0))
    c.ensure('operand', val.eq(a.ival, v0))

@obligation(P, 'canary/ip-is-not-involution', cls='L', canary=True, funcs=['crysp.des.IP'])
def _(c):
    x = c.bits('x', 64)
    c.ensure('canary', val.eq(c.call(des.IP, c.call(des.IP, x)).ival, x.ival))

# =====================================================================  Serpent
from spec import serpent as SP, threefish as TF
import crysp.serpent as serpent, crysp.threefish as threefish, crysp.salsa20 as salsa20, crysp.chacha as chacha
from props.sym_common import *

@obligation(P, 'crysp.serpent._S-_Sinv/inverse', cls='L', cases={'i': list(range(8))}, funcs=['crysp.serpent._S', 'crysp.serpent._Sinv'], timeout=200)
def _(c):
    i = c.case('i'); X = c.bits('X', 128)
    c.ensure('Sinv(S(x))', val.eq(c.call(serpent._Sinv, i, c.call(serpent._S, i, X)).ival, X.ival))
    c.ensure('S(Sinv(x))', val.eq(c.call(serpent._S, i, c.call(serpent._Sinv, i, X)).ival, X.ival))

@obligation(P, 'crysp.serpent.IP-FP-L/inverse', cls='L', funcs=['crysp.serpent._IP', 'crysp.serpent._FP', 'crysp.serpent._L', 'crysp.serpent._Linv'], timeout=200)
def _(c):
    X = c.bits('X', 128)
    c.ensure('FP(IP(x))', val.eq(c.call(serpent._FP, c.call(serpent._IP, X)).ival, X.ival))
    c.ensure('IP(FP(x))', val.eq(c.call(serpent._IP, c.call(serpent._FP, X)).ival, X.ival))
    c.ensure('Linv(L(x))', val.eq(c.call(serpent._Linv, c.call(serpent._L, X)).ival, X.ival))
    c.ensure('L(Linv(x))', val.eq(c.call(serpent._L, c.call(serpent._Linv, X)).ival, X.ival))

@obligation(P, 'crysp.serpent.Serpent/roundtrip', cls='L', opaque=SP.NAMES, cases={'dir': ['dec(enc)', 'enc(dec)']}, funcs=['crysp.serpent.Serpent.enc', 'crysp.serpent.Serpent.dec'])
def _(c):
    install_serpent_contracts(c)
    for i in range(8):
        c.axiom_inverse(SP.S[i], SP.SINV[i], 'C03 crysp.serpent._S-_Sinv/inverse'); c.axiom_inverse(SP.SINV[i], SP.S[i], 'C03 crysp.serpent._S-_Sinv/inverse')
    c.axiom_inverse(SP.L, SP.LINV, 'C03 crysp.serpent.IP-FP-L/inverse'); c.axiom_inverse(SP.LINV, SP.L, 'C03 crysp.serpent.IP-FP-L/inverse')
    s = serpent.Serpent.__new__(serpent.Serpent)
    s.keys = [c.bits('k%d' % i, 128) for i in range(33)]
    blk = c.bytes('B', 16)
    if c.case('dir') == 'dec(enc)':
        mid = c.call(serpent.Serpent.enc, s, blk); out = c.call(serpent.Serpent.dec, s, mid)
    else:
        mid = c.call(serpent.Serpent.dec, s, blk); out = c.call(serpent.Serpent.enc, s, mid)
    c.ensure('identity', val.eq(out, blk)); c.ensure('length', land(len(mid) == 16, len(out) == 16))

# =====================================================================  Threefish
@obligation(P, 'crysp.threefish.Threefish.MIX-MIXinv/inverse', cls='L', cases={'nw': [4, 8, 16]}, funcs=['crysp.threefish.Threefish.__MIX', 'crysp.threefish.Threefish.__MIXinv'], timeout=200)
def _(c):
    nw = c.case('nw')
    t = threefish.Threefish(bytes(8 * nw), bytes(16))
    for d in range(8):
        for j in range(nw // 2):
            x0 = c.bits('x%d_%d' % (d, j), 64); x1 = c.bits('y%d_%d' % (d, j), 64)
            y = c.call(threefish.Threefish._Threefish__MIX, t, x0, x1, d, j)
            z = c.call(threefish.Threefish._Threefish__MIXinv, t, y[0], y[1], d, j)
            c.ensure('MIXinv(MIX) d=%d j=%d' % (d, j), land(val.eq(z[0].ival, x0.ival), val.eq(z[1].ival, x1.ival)))
            y = c.call(threefish.Threefish._Threefish__MIXinv, t, x0, x1, d, j)
            z = c.call(threefish.Threefish._Threefish__MIX, t, y[0], y[1], d, j)
            c.ensure('MIX(MIXinv) d=%d j=%d' % (d, j), land(val.eq(z[0].ival, x0.ival), val.eq(z[1].ival, x1.ival)))
    pi, piinv = t._Threefish__pi, t._Threefish__piinv
    c.ensure('pi-inverse', sorted(pi) == list(range(nw)) and all(piinv[pi[i]] == i for i in range(nw)))

@obligation(P, 'crysp.threefish.Threefish/roundtrip', cls='L', opaque=TF.NAMES, cases={'nw': [4, 8, 16], 'dir': ['dec(enc)', 'enc(dec)']}, funcs=['crysp.threefish.Threefish.enc', 'crysp.threefish.Threefish.dec'], timeout=200)
def _(c):
    nw = c.case('nw')
    install_threefish_contracts(c)
    for r in range(64):
        c.axiom_inverse(TF._MIX[r], TF._MIXINV[r], 'C03 Threefish.MIX-MIXinv/inverse'); c.axiom_inverse(TF._MIXINV[r], TF._MIX[r], 'C03 Threefish.MIX-MIXinv/inverse')
    key = c.bytes('K', 8 * nw); tw = c.bytes('T', 16); blk = c.bytes('B', 8 * nw)
    t = c.call(threefish.Threefish, key, tw)
    if c.case('dir') == 'dec(enc)':
        mid = c.call(threefish.Threefish.enc, t, blk); out = c.call(threefish.Threefish.dec, t, mid)
    else:
        mid = c.call(threefish.Threefish.dec, t, blk); out = c.call(threefish.Threefish.enc, t, mid)
    c.ensure('identity', val.eq(out, blk)); c.ensure('length', land(len(mid) == 8 * nw, len(out) == 8 * nw))

# =====================================================================  Salsa / ChaCha index maps (finite)
@obligation(P, 'salsa-chacha.index-maps/inverse', cls='E', funcs=['crysp.salsa20', 'crysp.chacha'], domain={})
def _(c):
    for mod in (salsa20, chacha):
        for f, g in ((mod.rM, mod.rMinv), (mod.cM, mod.cMinv)):
            c.ensure('%s permutation' % mod.__name__, sorted(f) == list(range(16)) and sorted(g) == list(range(16)))
            c.ensure('%s inverse' % mod.__name__, all(g[f[i]] == i and f[g[i]] == i for i in range(16)))
