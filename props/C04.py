# C04  Keccak sponge, SHA-3 and SHAKE equal FIPS 202 for every input and configuration.
from pyvc.oblig import obligation
from pyvc import val
from pyvc.val import land, lor, lnot, mask
from spec import keccak as K
import crysp.keccak as keccak, crysp.sha as sha
from crysp.bits import Bits

P = 'C04'
WIDTHS = K.WIDTHS
def sym_state(c, w, name='A'):
    st = keccak.State(w)
    for l in range(25):
        b = Bits(0, w); b.ival = c.word('%s%d' % (name, l), w); st.lanes[l] = b
    return st
def lanes(st): return [b.ival for b in st.lanes]
def mkstate(vals, w):
    st = keccak.State(w)
    for l in range(25):
        b = Bits(0, w); b.ival = vals[l]; st.lanes[l] = b
    return st

@obligation(P, 'crysp.keccak.rot/post', cls='L', cases={'w': WIDTHS}, funcs=['crysp.keccak.rot'])
def _(c):
    w = c.case('w')
    for n in sorted({0, 1, 2, 3, w - 1, w, w + 1, 2 * w + 1, 62, 64, 190}):
        l = c.bits('l%d' % n, w)
        r = c.call(keccak.rot, l, n)
        c.ensure('rot%d' % n, land(val.eq(r.ival, val.rol(l.ival, n % w, w)), r.size == w))

@obligation(P, 'crysp.keccak.Round/post', cls='L', cases={'w': WIDTHS}, funcs=['crysp.keccak.Round', 'crysp.keccak.State.__getitem__', 'crysp.keccak.State.__setitem__'], timeout=200,
            note='theta, rho/pi (offset table), chi, iota on an arbitrary state and arbitrary w-bit round constant, against the (x,y) formulas with independently derived offsets')
def _(c):
    w = c.case('w')
    A = sym_state(c, w); a0 = lanes(A)
    rc = c.bits('rc', w)
    R = c.call(keccak.Round, A, rc)
    c.ensure('round', val.eq(lanes(R), K.round_(a0, rc.ival, w)))
    c.ensure('lane-sizes', land(*[b.size == w for b in R.lanes]))

def install_round(c, w):
    def h(I, args, kw):
        A, rc = args
        if A.w != w or rc.size != w: return NotImplemented
        return (mkstate(K._un(K.ROUND[w](K._pk(lanes(A), w), rc.ival), w), w),)
    c.replace(keccak.Round, h)
def install_f(c, w):
    def h(I, args, kw):
        self, A = args
        if A.w != w or self.w != w: return NotImplemented
        return (mkstate(K._un(K.F[w](K._pk(lanes(A), w)), w), w),)
    c.replace(keccak.Keccak.f, h)

@obligation(P, 'crysp.keccak.Keccak.f/post', cls='L', opaque=K.NAMES_ROUND, cases={'w': WIDTHS}, funcs=['crysp.keccak.Keccak.f', 'crysp.keccak.Keccak.__init__'],
            note='12+2l rounds with the round constants of FIPS 202 (LFSR-derived here) truncated to the lane width')
def _(c):
    w = c.case('w')
    install_round(c, w)
    k = keccak.Keccak(b=25 * w, r=max(1, 25 * w - 2 * w) if w > 1 else 10)
    c.ensure('rounds', land(k.n == K.nrounds(w), k.w == w, k.b == 25 * w))
    A = sym_state(c, w); a0 = lanes(A)
    R = c.call(keccak.Keccak.f, k, A)
    c.ensure('f', val.eq(lanes(R), K.f(a0, w, True)))

@obligation(P, 'crysp.keccak.State.load-dump-xor/post', cls='L', cases=lambda tier: [{'w': w, 'r': r} for w in WIDTHS for r in sorted({1, 2, w, w + 1, 8 * w, 17 * w, 25 * w - 2 * w, 25 * w - 1} & set(range(1, 25 * w)))],
            funcs=['crysp.keccak.State.load', 'crysp.keccak.State.dump', 'crysp.keccak.State.__xor__', 'crysp.keccak.State.__init__'])
def _(c):
    w, r = c.case('w'), c.case('r')
    B = c.bits('B', r)
    st = c.call(keccak.State(w).load, B) if False else c.call(keccak.State.load, keccak.State(w), B)
    bits = val.bits_of(B.ival, r) + [0] * (25 * w - r)
    c.ensure('load', land(val.eq(lanes(st), [val.from_bits(bits[w * l:w * l + w]) for l in range(25)]), *[b.size == w for b in st.lanes]))
    A = sym_state(c, w); a0 = lanes(A)
    z = c.call(keccak.State.dump, A, r)
    allbits = [bt for l in range(25) for bt in val.bits_of(a0[l], w)]
    c.ensure('dump', land(val.eq(z.ival, val.from_bits(allbits[:r])), z.size == r))
    X = c.call(keccak.State.__xor__, A, st)
    c.ensure('xor', val.eq(lanes(X), [a ^ b for a, b in zip(a0, lanes(st))]))
    c.ensure('xor/operands', val.eq(lanes(A), a0))

# ---------------------------------------------------------------- the sponge, bounded in message length (f through its contract)
CONFIGS_Q = [(25, 1), (25, 7), (25, 24), (50, 13), (100, 36), (200, 72), (200, 40), (200, 9), (200, 199), (400, 144), (800, 544), (1600, 1088), (1600, 576), (1600, 1027)]
def _lens(r, tier):
    base = {0, 1, 2, 7, 8, 9, r - 9, r - 8, r - 2, r - 1, r, r + 1, r + 7, r + 8, 2 * r - 2, 2 * r - 1, 2 * r, 2 * r + 1}
    if tier != 'quick': base |= set(range(0, min(2 * r + 10, 150))) | {3 * r - 1, 3 * r, 3 * r + 8}
    return sorted(x for x in base if x >= 0)
def _sponge_cases(tier):
    out = []
    for b, r in CONFIGS_Q:
        for L in _lens(r, tier):
            if tier == 'quick' and b >= 400 and L not in (0, 1, 8, r - 2, r - 1, r, r + 1, 2 * r - 1): continue
            for nist in (0, 1):
                out.append({'b': b, 'r': r, 'L': L, 'nist': nist})
    return out
@obligation(P, 'crysp.keccak.Keccak.__call__/bounded', cls='B', opaque=K.NAMES_F, cases=_sponge_cases, timeout=200,
            bound='14 (width, rate) configurations incl. rates that are not multiples of 8 and rates below 8; message bit lengths around 0, r and 2r (quick) / every length up to 2r+9 or 149, and 3r-1, 3r, 3r+8 (thorough); both bit-order conventions; output longer than the rate; contents symbolic',
            funcs=['crysp.keccak.Keccak.__call__', 'crysp.keccak.Keccak.iterblocks', 'crysp.keccak.State.load', 'crysp.keccak.State.dump', 'crysp.keccak.Keccak.__init__', 'crysp.keccak.Keccak.setrate'])
def _(c):
    b, r, L, nist = c.case('b'), c.case('r'), c.case('L'), c.case('nist'); w = b // 25
    install_f(c, w)
    d = r + 9 if b <= 400 else 264
    k = keccak.Keccak(b=b, r=r, len=d); k.duplexing = not nist
    nb = -(-L // 8)
    M = c.bytes('M', nb + (1 if L % 8 == 0 else 0))          # one spare byte beyond the bit length must not matter
    out = c.call(keccak.Keccak.__call__, k, M, L)
    exp = K.sponge_bits(b, r, K.msg_bits(list(M), L, bool(nist)), d, True)
    c.ensure('output', val.eq(out, K.bits_to_bytes(exp)))
    c.ensure('length', len(out) == -(-d // 8))
    c.ensure('rate-unchanged', land(k.r == r, k.c == b - r))
    # per-call rate (another admissible rate of the same width) applies to that call only
    r2 = r // 2 + 1 if r > 2 else r + 1
    out2 = c.call(keccak.Keccak.__call__, k, M, L, r2)
    exp2 = K.sponge_bits(b, r2, K.msg_bits(list(M), L, bool(nist)), d, True)
    c.ensure('per-call-rate/output', val.eq(out2, K.bits_to_bytes(exp2)))
    c.ensure('per-call-rate/not-stored', land(k.r == r, k.c == b - r))

# ---------------------------------------------------------------- the two sponge loops, one step from an ARBITRARY state (class I)
STEP_CFG = [(25, 7), (50, 13), (200, 72), (200, 9), (400, 144), (800, 544), (1600, 1088), (1600, 576), (1600, 1027)]
@obligation(P, 'crysp.keccak.Keccak.__call__/absorb-step', cls='I', opaque=K.NAMES_F, cases=lambda tier: [{'b': b, 'r': r} for b, r in STEP_CFG], funcs=['crysp.keccak.Keccak.__call__', 'crysp.keccak.State.load', 'crysp.keccak.State.__xor__'],
            note='one iteration of the absorbing loop for EVERY state and every r-bit block: S\' = f(S xor (block || 0^c)), f through its contract')
def _(c):
    b, r = c.case('b'), c.case('r'); w = b // 25
    install_f(c, w)
    k = keccak.Keccak(b=b, r=r, len=8)
    S = sym_state(c, w, 'S'); s0 = lanes(S)
    Pi = c.bits('Pi', r)
    ys, loc = c.loop_body(keccak.Keccak.__call__, 0, {'self': k, 'M': None, 'bitlen': None, 'r': r, 'S': S, 'Pi': Pi})
    bits = val.bits_of(Pi.ival, r) + [0] * (b - r)
    exp = K._un(K.F[w](K._pk([s0[l] ^ val.from_bits(bits[w * l:w * l + w]) for l in range(25)], w)), w)
    c.ensure('absorb', land(val.eq(lanes(loc['S']), exp), *[x.size == w for x in loc['S'].lanes]))
    c.ensure('nothing-yielded', len(ys) == 0)

@obligation(P, 'crysp.keccak.Keccak.__call__/squeeze-step', cls='I', opaque=K.NAMES_F, cases=lambda tier: [{'b': b, 'r': r} for b, r in STEP_CFG], funcs=['crysp.keccak.Keccak.__call__', 'crysp.keccak.State.dump'],
            note='one iteration of the squeezing loop for EVERY state and every amount of output already produced: S\' = f(S), Z\' = Z || first r bits of S\'')
def _(c):
    b, r = c.case('b'), c.case('r'); w = b // 25
    install_f(c, w)
    k = keccak.Keccak(b=b, r=r, len=8)
    S = sym_state(c, w, 'S'); s0 = lanes(S)
    nz = 2 * r + 3
    Z = c.bits('Z', nz); z0 = Z.ival
    ys, loc = c.loop_body(keccak.Keccak.__call__, 1, {'self': k, 'M': None, 'bitlen': None, 'r': r, 'S': S, 'Z': Z})
    s1 = K._un(K.F[w](K._pk(s0, w)), w)
    allbits = [bt for l in range(25) for bt in val.bits_of(s1[l], w)]
    c.ensure('state', val.eq(lanes(loc['S']), s1))
    c.ensure('output', land(loc['Z'].size == nz + r, val.eq(loc['Z'].ival, z0 | (val.from_bits(allbits[:r]) << nz))))

@obligation(P, 'sha3-shake/bounded', cls='B', opaque=K.NAMES_F, bound='message lengths {0,1,rate-1 bytes,rate bytes,rate+1} per function; contents symbolic',
            cases=lambda tier: [{'f': f, 'n': n} for f, rb in (('sha3_224', 144), ('sha3_256', 136), ('sha3_384', 104), ('sha3_512', 72), ('shake128', 168), ('shake256', 136)) for n in (0, 1, rb - 1, rb, rb + 1)],
            funcs=['crysp.sha.SHA3.__init__', 'crysp.sha.SHA3.__call__', 'crysp.sha.SHAKE128', 'crysp.sha.SHAKE256'], timeout=200)
def _(c):
    f, n = c.case('f'), c.case('n')
    install_f(c, 64)
    M = c.bytes('M', n)
    bits = K.msg_bits(list(M), 8 * n, False)
    if f.startswith('sha3'):
        size = int(f[5:])
        out = c.call(sha.SHA3(size), M) if False else c.call(sha.SHA3.__call__, sha.SHA3(size), M)
        exp = K.sponge_bits(1600, 1600 - 2 * size, bits + [0, 1], size, True)
        c.ensure('digest', val.eq(out, K.bits_to_bytes(exp))); c.ensure('length', len(out) == size // 8)
    else:
        sec = int(f[5:])
        for d in (8, 256, 8 * 200):
            out = c.call(sha.SHAKE128 if sec == 128 else sha.SHAKE256, M, d)
            exp = K.sponge_bits(1600, 1600 - 2 * sec, bits + [1, 1, 1, 1], d, True)
            c.ensure('output d=%d' % d, val.eq(out, K.bits_to_bytes(exp)))
    c.raises('sha3-bad-size', Exception, sha.SHA3, 200) if n == 0 else None

@obligation(P, 'crysp.keccak.Keccak.duplex/bounded', cls='B', opaque=K.NAMES_F, bound='sequences of 1..3 duplex calls, inputs of 0..r-2 bits, widths 200 and 1600', timeout=200,
            cases={'b': [200, 1600], 'seq': ['0', '5', '8,0', '3,9,1', '16,16']}, funcs=['crysp.keccak.Keccak.duplex'])
def _(c):
    b = c.case('b'); w = b // 25; r = 72 if b == 200 else 1088
    install_f(c, w)
    k = keccak.Keccak(b=b, r=r, len=r)
    S = [0] * 25
    for i, L in enumerate(int(x) for x in c.case('seq').split(',')):
        nb = -(-L // 8)
        m = c.bytes('m%d' % i, nb)
        out = c.call(keccak.Keccak.duplex, k, m, L if L else None, 40)
        bits = K.msg_bits(list(m), L, False)
        Pd = bits + [1] + [0] * (r - len(bits) - 2) + [1] + [0] * (b - r)
        S = K._un(K.F[w](K._pk([S[l] ^ val.from_bits(Pd[w * l:w * l + w]) for l in range(25)], w)), w)
        sb = [bt for l in range(25) for bt in val.bits_of(S[l], w)]
        c.ensure('duplex%d' % i, val.eq(out, K.bits_to_bytes(sb[:40])))

@obligation(P, 'crysp.keccak.Keccak.__init__/rejects', cls='B', bound='listed bad parameters', funcs=['crysp.keccak.Keccak.__init__'])
def _(c):
    for kw in ({'b': 1601, 'c': 1}, {'b': 300, 'c': 100}, {'b': 1600, 'r': 1537}):
        c.raises('%s' % kw, Exception, keccak.Keccak, **kw)

@obligation(P, 'canary/keccak-rho', cls='L', canary=True, funcs=['crysp.keccak.Round'])
def _(c):
    A = sym_state(c, 8); a0 = lanes(A); rc = c.bits('rc', 8)
    R = c.call(keccak.Round, A, rc)
    wrong = K.round_(a0, rc.ival, 8); wrong[1], wrong[2] = wrong[2], wrong[1]
    c.ensure('canary', val.eq(lanes(R), wrong))
