# Hybrid AST evaluator: functions whose code object lives under /repo/crysp are
# evaluated from the AST of the real source file, on the real CPython objects;
# everything else runs natively.  Symbolic values (pyvc.sym) flow through both.
import ast, sys, types, builtins, operator, functools, os, io, struct, codecs, copy
import z3
from .sym import (SymInt, SymBool, EngineError, LeakError, lift, mkbool, select, ite, land, lor, lnot,
                  fresh, mk, bits_for, ext)
from . import sbytes as SB
from .sbytes import SBytes

REPO = os.environ.get('PYVC_REPO', '/repo') + '/crysp'

class Return(Exception):
    def __init__(self, v): self.v = v
class Break(Exception): pass
class Continue(Exception): pass
class IStopIteration(Exception):
    """StopIteration raised by next() inside evaluated code (PEP 479 would turn the real one into RuntimeError)"""
class Infeasible(Exception): pass
class PathLimit(EngineError): pass

_ast_cache = {}
def file_ast(fn):
    if fn not in _ast_cache:
        src = open(fn).read()
        tree = ast.parse(src, fn)
        idx = {}
        for node in ast.walk(tree):
            for ch in ast.iter_child_nodes(node):
                ch._parent = node
        modname = 'crysp.' + os.path.relpath(fn, REPO)[:-3].replace(os.sep, '.')
        for node in ast.walk(tree):
            if isinstance(node, ast.FunctionDef):
                # qualified name and loop ordinals (contracts refer to loops by ordinal, not by line number)
                q = [node.name]; p = getattr(node, '_parent', None)
                while p is not None and not isinstance(p, ast.Module):
                    if isinstance(p, (ast.ClassDef, ast.FunctionDef)): q.append(p.name)
                    p = getattr(p, '_parent', None)
                node._qual = modname + '.' + '.'.join(reversed(q))
                k = 0
                todo = list(reversed(node.body))
                while todo:
                    st = todo.pop()
                    if isinstance(st, (ast.FunctionDef, ast.ClassDef, ast.Lambda)): continue
                    if isinstance(st, (ast.For, ast.While)):
                        st._loopkey = (node._qual, k); k += 1
                    todo.extend(reversed(list(ast.iter_child_nodes(st))))
        for node in ast.walk(tree):
            if isinstance(node, (ast.FunctionDef, ast.Lambda)):
                idx.setdefault(node.lineno, []).append(node)
                for d in getattr(node, 'decorator_list', []):
                    idx.setdefault(d.lineno, []).append(node)
        _ast_cache[fn] = (tree, idx)
    return _ast_cache[fn]

def is_repo_func(f):
    return isinstance(f, types.FunctionType) and f.__code__.co_filename.startswith(REPO)

_node_cache = {}
def find_node(f):
    code = f.__code__
    if code in _node_cache: return _node_cache[code]
    tree, idx = file_ast(code.co_filename)
    cands = idx.get(code.co_firstlineno, [])
    if code.co_name == '<lambda>':
        cands = [c for c in cands if isinstance(c, ast.Lambda)]
    else:
        cands = [c for c in cands if isinstance(c, ast.FunctionDef) and c.name == code.co_name]
    if len(cands) != 1:
        argn = list(code.co_varnames[:code.co_argcount])
        cands = [c for c in cands if [a.arg for a in c.args.args] == argn]
        if len(cands) != 1:
            raise EngineError('cannot locate AST for %r (%d candidates)' % (f, len(cands)))
    _node_cache[code] = cands[0]
    return cands[0]

def enclosing_class(node):
    p = getattr(node, '_parent', None)
    while p is not None:
        if isinstance(p, ast.ClassDef): return p.name
        p = getattr(p, '_parent', None)
    return None

def is_generator_node(node):
    r = getattr(node, '_isgen', None)
    if r is None:
        r = node._isgen = _is_generator_node(node)
    return r

def _is_generator_node(node):
    todo = list(ast.iter_child_nodes(node))
    while todo:
        n = todo.pop()
        if isinstance(n, (ast.FunctionDef, ast.Lambda, ast.ClassDef)): continue
        if isinstance(n, (ast.Yield, ast.YieldFrom)): return True
        todo.extend(ast.iter_child_nodes(n))
    return False

class Env:
    __slots__ = ('vars', 'parent', 'globals', 'cls', 'cells', 'selfobj')
    def __init__(self, globals_, parent=None, cls=None, cells=None):
        self.vars = {}; self.parent = parent; self.globals = globals_; self.cls = cls; self.cells = cells or {}
        self.selfobj = None
    def lookup(self, name):
        e = self
        while e is not None:
            if name in e.vars: return e.vars[name]
            if name in e.cells:
                return e.cells[name].cell_contents
            e = e.parent
        if name in self.globals: return self.globals[name]
        if hasattr(builtins, name): return getattr(builtins, name)
        raise NameError(name)

class IFunc:
    """function object created by an evaluated def/lambda"""
    def __init__(self, interp, node, env, name):
        self.interp = interp; self.node = node; self.env = env; self.__name__ = name
        self.defaults = [interp.eval(d, env) for d in node.args.defaults]
    def __call__(self, *a, **k):
        return self.interp.call_node(self.node, self.env, a, k, self.defaults, cls=self.env.cls)
    def __get__(self, obj, typ=None):
        if obj is None: return self
        return types.MethodType(self, obj)

class IGen:
    def __init__(self, g): self.g = g
    def __iter__(self): return self
    def __next__(self):
        for ev in self.g:
            return ev
        raise StopIteration

BINOPS = {ast.Add: ('__add__', '__radd__', operator.add), ast.Sub: ('__sub__', '__rsub__', operator.sub),
  ast.Mult: ('__mul__', '__rmul__', operator.mul), ast.FloorDiv: ('__floordiv__', '__rfloordiv__', operator.floordiv),
  ast.Mod: ('__mod__', '__rmod__', operator.mod), ast.BitAnd: ('__and__', '__rand__', operator.and_),
  ast.BitOr: ('__or__', '__ror__', operator.or_), ast.BitXor: ('__xor__', '__rxor__', operator.xor),
  ast.LShift: ('__lshift__', '__rlshift__', operator.lshift), ast.RShift: ('__rshift__', '__rrshift__', operator.rshift),
  ast.Div: ('__truediv__', '__rtruediv__', operator.truediv), ast.Pow: ('__pow__', '__rpow__', operator.pow)}
CMPOPS = {ast.Eq: ('__eq__', operator.eq), ast.NotEq: ('__ne__', operator.ne), ast.Lt: ('__lt__', operator.lt),
  ast.LtE: ('__le__', operator.le), ast.Gt: ('__gt__', operator.gt), ast.GtE: ('__ge__', operator.ge)}
REFL = {'__eq__': '__eq__', '__ne__': '__ne__', '__lt__': '__gt__', '__gt__': '__lt__', '__le__': '__ge__', '__ge__': '__le__'}

ITERATING = (builtins.zip, builtins.list, builtins.tuple, builtins.enumerate, builtins.sum, builtins.any, builtins.all,
             builtins.map, builtins.filter, builtins.sorted, builtins.iter, functools.reduce, builtins.reversed,
             builtins.set, builtins.min, builtins.max)

def is_sym(x):
    return isinstance(x, (SymInt, SymBool, SBytes))

def has_sym(x, depth=2):
    if is_sym(x): return True
    if depth and isinstance(x, (list, tuple)):
        return any(has_sym(y, depth - 1) for y in x)
    return False

class Interp:
    max_paths = 4096
    def __init__(self, decisions=None, solver=None):
        self.ncalls = 0
        self.solver = solver if solver is not None else z3.Solver()
        self.decisions = list(decisions or [])
        self.taken = []          # (choice, alternatives)
        self.nq = 0
        self.contracts = {}      # function object -> handler(interp, args, kwargs) -> result | NotImplemented
        self.loop_contracts = {} # (function qualname, loop ordinal) -> handler(interp, env): the loop body's contract
        self.used_contracts = set()
        self.evaluated = set()   # qualified names of repo functions evaluated from the AST
        self.step_limit = None

    # ------------------------------------------------------------------ path condition
    def assume(self, c):
        if isinstance(c, SymInt): c = (c != 0)
        if isinstance(c, SymBool):
            self.solver.add(c.t)
            if self.solver.check() == z3.unsat: raise Infeasible()
        elif not c:
            raise Infeasible()

    def feasible(self, t):
        s = self.solver
        s.push(); s.add(t); r = s.check(); s.pop()
        self.nq += 1
        if r == z3.unknown: raise EngineError('solver unknown on a branch condition')
        return r == z3.sat

    def truth(self, v):
        if isinstance(v, SymInt): v = (v != 0)
        if isinstance(v, SymBool):
            k = len(self.taken)
            if k < len(self.decisions):
                c = self.decisions[k]
                self.taken.append((c, ()))
                self.solver.add(v.t if c else z3.Not(v.t))
                return c
            ft = self.feasible(v.t)
            ff = self.feasible(z3.Not(v.t))
            if not ft and not ff: raise Infeasible()
            if ft and ff:
                c = True
                self.taken.append((c, (False,)))
            else:
                c = ft; self.taken.append((c, ()))
            self.solver.add(v.t if c else z3.Not(v.t))
            return c
        t = type(v)
        if t in (bool, int, type(None), str, bytes, list, tuple, dict): return bool(v)
        if isinstance(v, SBytes): return len(v) != 0
        if is_repo_func(getattr(t, '__bool__', None)): return self.truth(self.call(t.__bool__, (v,)))
        if is_repo_func(getattr(t, '__len__', None)): return self.truth(self.call(t.__len__, (v,)) != 0)
        return bool(v)

    def concretize(self, v, what='value', limit=1024):
        """enumerate the feasible values of a symbolic int (complete when it returns)"""
        if not isinstance(v, SymInt): return v
        k = len(self.taken)
        if k < len(self.decisions):
            c = self.decisions[k]
            self.taken.append((c, ()))
            self.solver.add((v == c).t if isinstance(v == c, SymBool) else z3.BoolVal(bool(v == c)))
            return c
        vals = []
        s = self.solver
        s.push()
        while True:
            r = s.check(); self.nq += 1
            if r == z3.unknown: s.pop(); raise EngineError('solver unknown while enumerating ' + what)
            if r == z3.unsat: break
            m = s.model()
            x = m.eval(v.t, model_completion=True)
            x = x.as_signed_long() if v.signed else x.as_long()
            vals.append(x)
            if len(vals) > limit: s.pop(); raise EngineError('more than %d feasible values for %s' % (limit, what))
            s.add(v.t != z3.BitVecVal(x, v.w))
        s.pop()
        if not vals: raise Infeasible()
        vals.sort()
        self.taken.append((vals[0], tuple(vals[1:])))
        s.add(v.t == z3.BitVecVal(vals[0], v.w))
        return vals[0]

    # ------------------------------------------------------------------ calling
    def call(self, f, args=(), kwargs=None):
        kwargs = kwargs or {}
        if isinstance(f, types.MethodType):
            return self.call(f.__func__, (f.__self__,) + tuple(args), kwargs)
        if isinstance(f, IFunc):
            return f(*args, **kwargs)
        if f in self.contracts:
            r = self.contracts[f](self, tuple(args), kwargs)
            if r is not NotImplemented:
                self.used_contracts.add(getattr(f, '__qualname__', str(f)))
                return r[0]
        if is_repo_func(f):
            node = find_node(f)
            cells = {}
            if f.__closure__:
                cells = dict(zip(f.__code__.co_freevars, f.__closure__))
            cls = enclosing_class(node)
            env = Env(f.__globals__, None, cls=cls, cells=cells)
            dflt = list(f.__defaults__ or ())
            self.evaluated.add(f.__module__ + '.' + f.__qualname__)
            return self.call_node(node, env, args, kwargs, dflt, cls=cls, kwdefaults=f.__kwdefaults__)
        if isinstance(f, type):
            init = getattr(f, '__init__', None)
            if is_repo_func(init) or init in self.contracts:
                obj = f.__new__(f)
                self.call(init, (obj,) + tuple(args), kwargs)
                return obj
            return self.call_type(f, args, kwargs)
        if not isinstance(f, (types.BuiltinFunctionType, types.FunctionType, types.BuiltinMethodType, functools.partial)) \
                and is_repo_func(getattr(type(f), '__call__', None)):
            return self.call(type(f).__call__, (f,) + tuple(args), kwargs)
        return self.call_native(f, list(args), kwargs)

    def wrap_callable(self, a):
        if is_repo_func(a) or (isinstance(a, types.MethodType) and is_repo_func(a.__func__)):
            return lambda *x, **k: self.call(a, x, k)
        return a

    def call_type(self, f, args, kwargs):
        a0 = args[0] if args else None
        if f is builtins.bytes:
            if isinstance(a0, SBytes): return a0
            if isinstance(a0, (list, tuple)) and has_sym(a0): return SB.from_items(a0)
            if isinstance(a0, IGen): return SB.from_items(list(a0))
            if a0 is not None and not isinstance(a0, (bytes, bytearray, int, str, list, tuple)) \
               and is_repo_func(getattr(type(a0), '__bytes__', None)):
                return self.call(type(a0).__bytes__, (a0,))
            if a0 is not None and is_repo_func(getattr(type(a0), '__iter__', None)):
                return SB.from_items(list(self.iter(a0)))
        if f is builtins.str and len(args) == 1 and not isinstance(a0, (str, bytes, int, float)):
            m = getattr(type(a0), '__str__', None)
            if m in self.contracts or is_repo_func(m): return self.call(m, (a0,))
        if f is builtins.int and isinstance(a0, SymInt) and len(args) == 1: return a0
        if f is builtins.bool and isinstance(a0, (SymInt, SymBool)): return self.truth(a0)
        if f is builtins.int and a0 is not None and not isinstance(a0, (int, str, bytes, float)) \
           and is_repo_func(getattr(type(a0), '__int__', None)):
            return self.call(type(a0).__int__, (a0,))
        if f in (builtins.list, builtins.tuple, builtins.set, builtins.enumerate, builtins.zip, builtins.reversed, builtins.map, builtins.filter):
            args = [self.native_iterable(a) for a in args]
            if f in (builtins.map, builtins.filter): args[0] = self.wrap_callable(args[0]) if args[0] is not None else None
            if f is builtins.reversed and isinstance(args[0], IGen): args[0] = list(args[0])
            if f is builtins.set and args and has_sym(list(args[0])): raise EngineError('set of symbolic values')
        if f is builtins.range:
            args = [self.concretize(a, 'range bound') for a in args]
        if f is io.BytesIO and isinstance(a0, SBytes): return SB.SBytesIO(a0)
        if f is builtins.bytearray and (isinstance(a0, SBytes) or has_sym(a0)):
            if len(args) != 1 or kwargs: raise EngineError('bytearray of symbolic data with an encoding')
            if isinstance(a0, IGen): a0 = list(a0)
            r = SB.from_items(SB.items_of(a0) if isinstance(a0, SBytes) else list(a0))
            return SB.SByteArr(r.items) if isinstance(r, SBytes) else bytearray(r)
        if f is builtins.float and isinstance(a0, SymInt): raise EngineError('float of symbolic int')
        return f(*args, **kwargs)

    def native_iterable(self, a):
        if isinstance(a, (list, tuple, bytes, str, range, dict, IGen, SBytes)): return a
        if is_repo_func(getattr(type(a), '__iter__', None)): return self.iter(a)
        return a

    def call_native(self, f, args, kwargs):
        if f is builtins.next:
            try:
                return next(*args)
            except StopIteration:
                raise IStopIteration()
        if f is builtins.isinstance:
            o, k = args
            if isinstance(o, SymInt):
                return issubclass(int, k) if isinstance(k, type) else any(issubclass(int, x) for x in k)
            if isinstance(o, SymBool):
                return issubclass(bool, k) if isinstance(k, type) else any(issubclass(bool, x) for x in k)
            if isinstance(o, SBytes):
                return issubclass(bytes, k) if isinstance(k, type) else any(issubclass(bytes, x) for x in k)
            return isinstance(o, k)
        if f is builtins.len and len(args) == 1:
            m = getattr(type(args[0]), '__len__', None)
            if is_repo_func(m) or m in self.contracts: return self.call(m, (args[0],))
            return len(args[0])
        if f is builtins.abs and isinstance(args[0], SymInt): return abs(args[0])
        if f is builtins.getattr: return self.getattr(*args) if len(args) == 2 else self.getattr_default(*args)
        if f is builtins.setattr: return self.setattr(*args)
        if f is builtins.hasattr:
            try: self.getattr(*args); return True
            except AttributeError: return False
        if f is builtins.divmod and has_sym(args): return (args[0] // args[1], args[0] % args[1])
        if f in (builtins.min, builtins.max) and has_sym(args):
            xs = list(args[0]) if len(args) == 1 else list(args)
            r = xs[0]
            for x in xs[1:]:
                c = (x < r) if f is builtins.min else (x > r)
                r = ite(c, x, r)
            return r
        if f is builtins.sum and args and has_sym(list(args[0]) if isinstance(args[0], (list, tuple)) else ()):
            r = args[1] if len(args) > 1 else 0
            for x in args[0]: r = r + x
            return r
        if f is functools.reduce:
            args = [self.wrap_callable(args[0]), self.native_iterable(args[1])] + list(args[2:])
        elif f in ITERATING:
            args = [self.native_iterable(a) for a in args]
            if f is builtins.sorted: args[0] = self.wrap_callable(args[0])
            if f is builtins.sorted and has_sym(list(args[0])): raise EngineError('sorted() of symbolic values')
            if 'key' in kwargs: kwargs = dict(kwargs, key=self.wrap_callable(kwargs['key']))
        if f is struct.unpack and isinstance(args[1], SBytes): return SB.struct_unpack(args[0], args[1])
        if f is struct.pack and has_sym(args[1:]): return SB.struct_pack(args[0], args[1:])
        if f is codecs.encode and isinstance(args[0], SBytes): raise EngineError('codecs.encode of symbolic bytes')
        if isinstance(f, types.BuiltinMethodType) and not isinstance(getattr(f, '__self__', None), types.ModuleType):
            s = f.__self__
            nm = f.__name__
            if isinstance(s, bytes) and nm == 'join':
                items = list(self.native_iterable(args[0]))
                if any(isinstance(x, SBytes) for x in items): return SB.join(s, items)
                return s.join(items)
            if isinstance(s, list) and nm == 'count' and (has_sym(s) or has_sym(args)):
                # engine model: count(x) == number of elements equal to x
                r = 0
                for y in s: r = r + ite(self.compare(ast.Eq, y, args[0]), 1, 0)
                return r
            if isinstance(s, list) and nm in ('index', 'remove') and (has_sym(s) or has_sym(args)):
                raise EngineError('list.%s on symbolic values' % nm)
            if isinstance(s, list) and nm == 'extend':
                return s.extend(self.native_iterable(args[0]))
            if isinstance(s, (bytes, str)) and has_sym(args):
                raise EngineError('%s.%s with symbolic argument' % (type(s).__name__, nm))
        if f is builtins.print: return None
        if f is builtins.super and not args:
            raise EngineError('zero-argument super() outside a call expression')
        return f(*args, **kwargs)

    def getattr_default(self, o, name, d):
        try: return self.getattr(o, name)
        except AttributeError: return d

    def call_node(self, node, defenv, args, kwargs, defaults, cls=None, kwdefaults=None):
        self.ncalls += 1
        if self.step_limit is not None and self.ncalls > self.step_limit: raise EngineError('step limit exceeded')
        env = Env(defenv.globals, defenv, cls=cls)
        a = node.args
        params = [x.arg for x in a.args]
        args = list(args)
        kwargs = dict(kwargs)
        nd = len(defaults)
        for i, p in enumerate(params):
            if i < len(args):
                if p in kwargs: raise TypeError('multiple values for argument %s' % p)
                env.vars[p] = args[i]
            elif p in kwargs: env.vars[p] = kwargs.pop(p)
            else:
                j = i - (len(params) - nd)
                if j < 0: raise TypeError('missing argument %s' % p)
                env.vars[p] = defaults[j]
        if params and len(args) > 0: env.selfobj = args[0]
        extra = args[len(params):]
        if a.vararg: env.vars[a.vararg.arg] = tuple(extra)
        elif extra: raise TypeError('too many positional arguments')
        for i, p in enumerate(a.kwonlyargs):
            if p.arg in kwargs: env.vars[p.arg] = kwargs.pop(p.arg)
            elif kwdefaults and p.arg in kwdefaults: env.vars[p.arg] = kwdefaults[p.arg]
            else: env.vars[p.arg] = self.eval(a.kw_defaults[i], defenv)
        if a.kwarg: env.vars[a.kwarg.arg] = dict(kwargs)
        elif kwargs: raise TypeError('unexpected keyword arguments %s' % list(kwargs))
        if isinstance(node, ast.Lambda):
            return self.eval(node.body, env)
        if is_generator_node(node):
            return IGen(self.run_gen(node.body, env))
        try:
            for _ in self.exec_block(node.body, env):
                raise EngineError('yield outside generator')
        except Return as r:
            return r.v
        return None

    def run_gen(self, body, env):
        try:
            yield from self.exec_block(body, env)
        except Return:
            return

    # ------------------------------------------------------------------ statements
    def exec_block(self, stmts, env):
        for s in stmts:
            yield from self.exec_stmt(s, env)

    def exec_stmt(self, s, env):
        T = type(s)
        if T is ast.Expr:
            if isinstance(s.value, ast.Yield):
                yield (self.eval(s.value.value, env) if s.value.value else None)
            elif isinstance(s.value, ast.Constant):
                pass
            else:
                self.eval(s.value, env)
        elif T is ast.Assign:
            if isinstance(s.value, ast.Yield): raise EngineError('yield expression value')
            v = self.eval(s.value, env)
            for t in s.targets: self.assign(t, v, env)
        elif T is ast.AugAssign:
            tgt = s.target
            if isinstance(tgt, ast.Subscript):
                o = self.eval(tgt.value, env); i = self.eval(tgt.slice, env)
                cur = self.subscript(o, i)
                v = self.binop(type(s.op), cur, self.eval(s.value, env), inplace=True)
                self.store_sub(o, i, v)
            elif isinstance(tgt, ast.Attribute):
                o = self.eval(tgt.value, env); nm = self.mangle(tgt.attr, env)
                cur = self.getattr(o, nm)
                v = self.binop(type(s.op), cur, self.eval(s.value, env), inplace=True)
                self.setattr(o, nm, v)
            else:
                cur = env.lookup(tgt.id)
                v = self.binop(type(s.op), cur, self.eval(s.value, env), inplace=True)
                self.assign(tgt, v, env)
        elif T is ast.Return:
            raise Return(self.eval(s.value, env) if s.value else None)
        elif T is ast.If:
            cnd = self.eval_cond(s.test, env)
            if isinstance(cnd, (SymBool, SymInt)) and self.mergeable(s) and self.merge_if(s, cnd, env):
                return
            if self.truth(cnd): yield from self.exec_block(s.body, env)
            else: yield from self.exec_block(s.orelse, env)
        elif T is ast.While:
            n = 0
            while self.truth(self.eval_cond(s.test, env)):
                n += 1
                if n > 200000: raise EngineError('loop bound exceeded')
                try: yield from self.exec_block(s.body, env)
                except Break: break
                except Continue: continue
            else:
                yield from self.exec_block(s.orelse, env)
        elif T is ast.For:
            it = self.iter(self.eval(s.iter, env))
            lc = self.loop_contracts.get(getattr(s, '_loopkey', None)) if self.loop_contracts else None
            for x in it:
                self.assign(s.target, x, env)
                if lc is not None:
                    # the loop body is replaced by its contract (proved by its own obligation)
                    try: lc(self, env)
                    except (NameError, KeyError, AttributeError, IndexError) as e:
                        # the contract names locals / attributes of the loop it replaces: if they are gone the CONTRACT is out of date
                        raise EngineError('loop contract of %s#%d does not fit the current code (%s: %s)' % (s._loopkey + (type(e).__name__, e)))
                    self.used_contracts.add('loop body %s#%d' % s._loopkey); continue
                try: yield from self.exec_block(s.body, env)
                except Break: break
                except Continue: continue
            else:
                yield from self.exec_block(s.orelse, env)
        elif T is ast.Assert:
            if not self.truth(self.eval_cond(s.test, env)):
                raise AssertionError(self.eval(s.msg, env) if s.msg else None)
        elif T is ast.Pass: pass
        elif T is ast.Break: raise Break()
        elif T is ast.Continue: raise Continue()
        elif T is ast.Raise:
            exc = self.eval(s.exc, env) if s.exc else None
            if exc is None: raise
            if isinstance(exc, type): exc = self.call(exc)
            raise exc
        elif T is ast.Try:
            try:
                yield from self.exec_block(s.body, env)
            except (Return, Break, Continue, Infeasible, EngineError): raise
            except Exception as e:
                for h in s.handlers:
                    et = self.eval(h.type, env) if h.type else Exception
                    if isinstance(e, IStopIteration):
                        ets = et if isinstance(et, tuple) else (et,)
                        match = any(issubclass(StopIteration, x) for x in ets)
                    else:
                        match = isinstance(e, et)
                    if match:
                        if h.name: env.vars[h.name] = e
                        yield from self.exec_block(h.body, env)
                        break
                else: raise
            else:
                yield from self.exec_block(s.orelse, env)
            finally:
                for _ in self.exec_block(s.finalbody, env): pass
        elif T is ast.FunctionDef:
            env.vars[s.name] = IFunc(self, s, env, s.name)
        elif T is ast.Global: pass
        elif T is ast.Delete:
            for t in s.targets:
                if isinstance(t, ast.Attribute): delattr(self.eval(t.value, env), self.mangle(t.attr, env))
                elif isinstance(t, ast.Subscript): del self.eval(t.value, env)[self.eval(t.slice, env)]
                else: del env.vars[t.id]
        elif T is ast.ImportFrom or T is ast.Import:
            ns = {}
            exec(compile(ast.Module([s], []), '<imp>', 'exec'), env.globals, ns)
            env.vars.update(ns)
        else:
            raise EngineError('unsupported statement ' + T.__name__)

    # ---- if-conversion: `if c: x = e1 else: x = e2` over local names becomes x = ite(c, e1, e2) instead of two paths
    def mergeable(self, s):
        for st in list(s.body) + list(s.orelse):
            if isinstance(st, ast.Pass): continue
            if isinstance(st, ast.Assign) and all(isinstance(t, ast.Name) for t in st.targets): continue
            if isinstance(st, ast.AugAssign) and isinstance(st.target, ast.Name): continue
            return False
        return True

    def merge_if(self, s, cnd, env):
        """returns True when both arms were evaluated on shadow environments and merged; False -> caller forks as usual"""
        arms = []
        for block in (s.body, s.orelse):
            sh = Env(env.globals, env, cls=env.cls); sh.selfobj = env.selfobj
            try:
                for _ in self.exec_block(block, sh): return False
            except (Infeasible, EngineError): raise
            except Exception:
                return False
            arms.append(sh.vars)
        names = set(arms[0]) | set(arms[1])
        merged = {}
        for n in names:
            try:
                a = arms[0][n] if n in arms[0] else env.lookup(n)
                b = arms[1][n] if n in arms[1] else env.lookup(n)
            except NameError:
                return False
            m = self.merge_values(cnd, a, b)
            if m is NotImplemented: return False
            merged[n] = m
        env.vars.update(merged)
        return True

    def merge_values(self, cnd, a, b):
        if a is b: return a
        ia = isinstance(a, (int, SymInt)) and not isinstance(a, bool)
        ib = isinstance(b, (int, SymInt)) and not isinstance(b, bool)
        if ia and ib: return ite(cnd, a, b)
        if type(a) is type(b) and type(a).__name__ in ('Bits', 'Tweak') and isinstance(a.size, int) and isinstance(b.size, int) \
           and a.size == b.size and isinstance(a.mask, int) and a.mask == b.mask:
            r = copy.copy(a); r.ival = ite(cnd, a.ival, b.ival); return r
        return NotImplemented

    def mangle(self, name, env):
        if name.startswith('__') and not name.endswith('__') and env.cls:
            return '_%s%s' % (env.cls.lstrip('_'), name)
        return name

    def assign(self, t, v, env):
        T = type(t)
        if T is ast.Name: env.vars[t.id] = v
        elif T in (ast.Tuple, ast.List):
            vals = list(self.iter(v))
            if len(vals) != len(t.elts): raise ValueError('not enough / too many values to unpack')
            for e, x in zip(t.elts, vals): self.assign(e, x, env)
        elif T is ast.Attribute:
            self.setattr(self.eval(t.value, env), self.mangle(t.attr, env), v)
        elif T is ast.Subscript:
            o = self.eval(t.value, env); i = self.eval(t.slice, env)
            self.store_sub(o, i, v)
        else: raise EngineError('unsupported assignment target')

    def store_sub(self, o, i, v):
        m = getattr(type(o), '__setitem__', None)
        if m in self.contracts or is_repo_func(m): return self.call(m, (o, i, v))
        if isinstance(o, list) and isinstance(i, SymInt):
            n = len(o)
            ok = land(i >= 0, i < n)
            if not self.truth(ok): raise IndexError('list assignment index out of range')
            lo, hi = max(i.lo, 0), min(i.hi, n - 1)
            for k in range(lo, hi + 1):
                o[k] = ite(i == k, v, o[k])
            return
        if isinstance(o, dict) and is_sym(i): raise EngineError('dict store with symbolic key')
        if isinstance(o, bytearray) and (is_sym(v) or is_sym(i)): raise EngineError('bytearray store of symbolic value')
        o[i] = v

    def find_desc(self, tp, name):
        for k in tp.__mro__:
            if name in k.__dict__: return k.__dict__[name]
        return None

    def getattr(self, o, name):
        d = self.find_desc(type(o), name) if not isinstance(o, type) else None
        if isinstance(d, property) and (is_repo_func(d.fget) or d.fget in self.contracts):
            return self.call(d.fget, (o,))
        return getattr(o, name)

    def setattr(self, o, name, v):
        d = self.find_desc(type(o), name)
        if isinstance(d, property) and d.fset is not None and (is_repo_func(d.fset) or d.fset in self.contracts):
            return self.call(d.fset, (o, v))
        setattr(o, name, v)

    def iter(self, v):
        if isinstance(v, SymInt): raise TypeError("'int' object is not iterable")
        m = getattr(type(v), '__iter__', None)
        if is_repo_func(m): return self.call(m, (v,))
        if m is None and is_repo_func(getattr(type(v), '__getitem__', None)):
            raise EngineError('iteration through __getitem__ protocol')
        return iter(v)

    def binop(self, op, a, b, inplace=False):
        name, rname, f = BINOPS[op]
        ta, tb = type(a), type(b)
        if inplace:
            m = getattr(ta, '__i' + name[2:], None)
            if is_repo_func(m): return self.call(m, (a, b))
        m = getattr(ta, name, None)
        if m in self.contracts or is_repo_func(m):
            r = self.call(m, (a, b))
            if r is not NotImplemented: return r
        m2 = getattr(tb, rname, None)
        if (m2 in self.contracts or is_repo_func(m2)) and not (m in self.contracts or is_repo_func(m)):
            return self.call(m2, (b, a))
        if op in (ast.LShift, ast.RShift) and isinstance(b, SymInt) and b.lo < 0 and isinstance(a, (int, SymInt)):
            if self.truth(b < 0): raise ValueError('negative shift count')
            from .sym import refine_nonneg
            b = refine_nonneg(b)
        if op is ast.Mod and isinstance(a, (str, bytes)) and has_sym(b):
            raise LeakError('symbolic value formatted into a string')
        if op is ast.Mult and isinstance(a, (bytes, list, tuple, str, SBytes)) and isinstance(b, SymInt): b = self.concretize(b, 'repetition count')
        if op is ast.Mult and isinstance(b, (bytes, list, tuple, str, SBytes)) and isinstance(a, SymInt): a = self.concretize(a, 'repetition count')
        return f(a, b)

    def compare(self, op, a, b):
        if op is ast.In: return self.contains(b, a)
        if op is ast.NotIn: return lnot(self.contains(b, a))
        if op is ast.Is: return a is b
        if op is ast.IsNot: return a is not b
        name, f = CMPOPS[op]
        m = getattr(type(a), name, None)
        if is_repo_func(m): return self.call(m, (a, b))
        m = getattr(type(b), REFL[name], None)
        if is_repo_func(m): return self.call(m, (b, a))
        if isinstance(a, (list, tuple)) and isinstance(b, (list, tuple)) and type(a) is type(b) and (has_sym(a) or has_sym(b)) and op in (ast.Eq, ast.NotEq):
            if len(a) != len(b): r = False
            else: r = land(*[self.compare(ast.Eq, x, y) for x, y in zip(a, b)])
            return r if op is ast.Eq else lnot(r)
        if isinstance(a, (bytes, bytearray)) and isinstance(b, SBytes): return f(b, a) if op in (ast.Eq, ast.NotEq) else f(a, b)
        return f(a, b)

    def contains(self, c, x):
        if isinstance(c, (list, tuple)):
            if not is_sym(x) and not has_sym(c):
                for y in c:
                    if y is x or self.truth(self.compare(ast.Eq, y, x)): return True
                return False
            return lor(*[self.compare(ast.Eq, y, x) for y in c])
        if isinstance(c, (dict, set, frozenset)) and is_sym(x): raise EngineError('symbolic membership in dict/set')
        return x in c

    def subscript(self, o, i):
        m = getattr(type(o), '__getitem__', None)
        if m in self.contracts or is_repo_func(m): return self.call(m, (o, i))
        if isinstance(o, (list, tuple, bytes, SBytes)) and not isinstance(i, (int, slice, SymInt)) \
           and is_repo_func(getattr(type(i), '__index__', None)):
            i = self.call(type(i).__index__, (i,))          # operator.index() protocol of a repository object
        if isinstance(i, SymInt):
            if isinstance(o, (list, tuple, bytes, SBytes, range)):
                n = len(o)
                if isinstance(o, SBytes): o = o.items
                ok = land(i >= -n, i < n)
                if not self.truth(ok): raise IndexError('index out of range')
                if i.lo < 0:
                    if self.truth(i < 0): i = i + n
                return self.select_items(list(o), i)
            if isinstance(o, dict):
                ks = sorted(k for k in o if isinstance(k, int)) if all(isinstance(k, int) for k in o) else None
                if ks and ks == list(range(len(ks))):
                    ok = land(i >= 0, i < len(ks))
                    if not self.truth(ok): raise KeyError('symbolic key outside the table')
                    return self.select_items([o[k] for k in ks], i)
                raise EngineError('dict lookup with symbolic key')
            raise EngineError('symbolic index into %s' % type(o).__name__)
        if isinstance(i, slice) and (isinstance(i.start, SymInt) or isinstance(i.stop, SymInt) or isinstance(i.step, SymInt)):
            i = slice(self.concretize(i.start, 'slice bound'), self.concretize(i.stop, 'slice bound'), self.concretize(i.step, 'slice step'))
        if isinstance(i, tuple) and has_sym(i) and isinstance(o, dict): raise EngineError('dict lookup with symbolic key')
        return o[i]

    def select_items(self, items, i):
        """items[i] for a symbolic index: integers directly; same-size bit vectors of the repository by selecting their payloads"""
        lo, hi = max(i.lo, 0), min(i.hi, len(items) - 1)
        sub = items[lo:hi + 1]
        if all(isinstance(x, (int, SymInt)) and not isinstance(x, bool) for x in sub): return select(items, i)
        t = type(sub[0])
        if all(type(x) is t and hasattr(x, 'ival') and hasattr(x, 'mask') for x in sub) and len({x.size for x in sub}) == 1 and t.__name__ in ('Bits', 'Tweak'):
            r = copy.copy(sub[0])
            r.ival = select([x.ival for x in items], i)
            return r
        raise EngineError('symbolic index into a list of %s' % t.__name__)

    # ------------------------------------------------------------------ expressions
    def eval(self, e, env):
        T = type(e)
        if T is ast.Constant: return e.value
        if T is ast.Name: return env.lookup(e.id)
        if T is ast.Attribute:
            o = self.eval(e.value, env)
            return self.getattr(o, self.mangle(e.attr, env))
        if T is ast.BinOp:
            return self.binop(type(e.op), self.eval(e.left, env), self.eval(e.right, env))
        if T is ast.UnaryOp:
            v = self.eval(e.operand, env)
            if isinstance(e.op, ast.Not):
                if isinstance(v, (SymBool, SymInt)): return lnot(v)
                return not self.truth(v)
            nm = {ast.USub: '__neg__', ast.Invert: '__invert__', ast.UAdd: '__pos__'}[type(e.op)]
            m = getattr(type(v), nm, None)
            if is_repo_func(m): return self.call(m, (v,))
            return {ast.USub: operator.neg, ast.Invert: operator.invert, ast.UAdd: operator.pos}[type(e.op)](v)
        if T is ast.BoolOp:
            isand = isinstance(e.op, ast.And)
            v = None
            for x in e.values:
                v = self.eval(x, env)
                b = self.truth(v)
                if isand and not b: return v if not isinstance(v, (SymBool, SymInt)) else False
                if (not isand) and b: return v if not isinstance(v, (SymBool, SymInt)) else True
            if isinstance(v, (SymBool, SymInt)): return isand
            return v
        if T is ast.Compare:
            left = self.eval(e.left, env)
            res = True
            for op, c in zip(e.ops, e.comparators):
                right = self.eval(c, env)
                res = self.compare(type(op), left, right)
                if len(e.ops) == 1: return res
                if not self.truth(res): return False
                left = right
            return True
        if T is ast.Call:
            if isinstance(e.func, ast.Name) and e.func.id == 'super' and not e.args:
                selfobj = self.find_self(env)
                cls = self.find_class(env, selfobj)
                return super(cls, selfobj)
            f = self.eval(e.func, env)
            args = []
            for a in e.args:
                if isinstance(a, ast.Starred): args.extend(self.iter(self.eval(a.value, env)))
                else: args.append(self.eval(a, env))
            kw = {}
            for k in e.keywords:
                if k.arg is None: kw.update(self.eval(k.value, env))
                else: kw[k.arg] = self.eval(k.value, env)
            return self.call(f, args, kw)
        if T is ast.Subscript:
            o = self.eval(e.value, env); i = self.eval(e.slice, env)
            return self.subscript(o, i)
        if T is ast.Slice:
            return slice(self.eval(e.lower, env) if e.lower else None, self.eval(e.upper, env) if e.upper else None,
                         self.eval(e.step, env) if e.step else None)
        if T is ast.Tuple: return tuple(self.eval_elts(e.elts, env))
        if T is ast.List: return list(self.eval_elts(e.elts, env))
        if T is ast.Dict:
            d = {}
            for k, v in zip(e.keys, e.values):
                kk = self.eval(k, env)
                if is_sym(kk): raise EngineError('symbolic dict key')
                d[kk] = self.eval(v, env)
            return d
        if T is ast.Set:
            xs = list(self.eval_elts(e.elts, env))
            if has_sym(xs): raise EngineError('set of symbolic values')
            return set(xs)
        if T is ast.IfExp:
            return self.eval(e.body, env) if self.truth(self.eval_cond(e.test, env)) else self.eval(e.orelse, env)
        if T is ast.Lambda: return IFunc(self, e, env, '<lambda>')
        if T in (ast.ListComp, ast.GeneratorExp, ast.SetComp):
            out = []
            self.comp(e.generators, 0, env, lambda en: out.append(self.eval(e.elt, en)))
            if T is ast.SetComp:
                if has_sym(out): raise EngineError('set of symbolic values')
                return set(out)
            return out if T is ast.ListComp else iter(out)
        if T is ast.DictComp:
            out = {}
            def add(en):
                k = self.eval(e.key, en)
                if is_sym(k): raise EngineError('symbolic dict key')
                out[k] = self.eval(e.value, en)
            self.comp(e.generators, 0, env, add)
            return out
        if T is ast.JoinedStr or T is ast.FormattedValue:
            d = self.flat(env)
            if has_sym(list(d.values())): raise LeakError('f-string over symbolic values')
            return eval(compile(ast.Expression(e), '<f>', 'eval'), env.globals, d)
        raise EngineError('unsupported expression ' + T.__name__)

    # ---- conditions: in a boolean context, `a and b` / `a or b` / chained comparisons whose later
    # operands are side-effect free are merged into one symbolic condition instead of forking on each
    # operand (Python's short-circuit order is unobservable for pure operands)
    _PURE_CMP = (ast.Is, ast.IsNot, ast.Eq, ast.NotEq, ast.Lt, ast.LtE, ast.Gt, ast.GtE)
    def pure(self, e):
        T = type(e)
        if T in (ast.Name, ast.Constant): return True
        if T is ast.Attribute: return self.pure(e.value)
        if T is ast.Compare: return all(type(o) in self._PURE_CMP for o in e.ops) and self.pure(e.left) and all(self.pure(c) for c in e.comparators)
        if T is ast.UnaryOp: return self.pure(e.operand)
        if T is ast.BoolOp: return all(self.pure(v) for v in e.values)
        if T is ast.BinOp: return type(e.op) in (ast.Add, ast.Sub, ast.Mult, ast.BitAnd, ast.BitOr, ast.BitXor) and self.pure(e.left) and self.pure(e.right)
        if T is ast.Tuple: return all(self.pure(x) for x in e.elts)
        return False

    def eval_cond(self, e, env):
        T = type(e)
        if T is ast.UnaryOp and isinstance(e.op, ast.Not):
            v = self.eval_cond(e.operand, env)
            if isinstance(v, (SymBool, SymInt)): return lnot(v)
            return not self.truth(v)
        if T is ast.BoolOp:
            isand = isinstance(e.op, ast.And)
            syms = []
            for k, x in enumerate(e.values):
                if syms and not self.pure(x):
                    # cannot look past an impure operand: decide what has been collected so far
                    c = land(*syms) if isand else lor(*syms)
                    b = self.truth(c)
                    if isand and not b: return False
                    if (not isand) and b: return True
                    syms = []
                try:
                    v = self.eval_cond(x, env)
                except (EngineError, Infeasible): raise
                except Exception:
                    if not syms: raise
                    c = land(*syms) if isand else lor(*syms)
                    b = self.truth(c)
                    if isand and not b: return False
                    if (not isand) and b: return True
                    syms = []
                    v = self.eval_cond(x, env)
                if isinstance(v, (SymBool, SymInt)):
                    syms.append(v)
                else:
                    b = self.truth(v)
                    if isand and not b: return False
                    if (not isand) and b: return True
            if not syms: return isand
            return land(*syms) if isand else lor(*syms)
        if T is ast.Compare and len(e.ops) > 1 and self.pure(e):
            left = self.eval(e.left, env)
            parts = []
            for op, c in zip(e.ops, e.comparators):
                right = self.eval(c, env)
                parts.append(self.compare(type(op), left, right))
                left = right
            return land(*parts)
        return self.eval(e, env)

    def eval_elts(self, elts, env):
        for x in elts:
            if isinstance(x, ast.Starred): yield from self.iter(self.eval(x.value, env))
            else: yield self.eval(x, env)

    def comp(self, gens, k, env, emit):
        if k == len(gens): emit(env); return
        g = gens[k]
        inner = Env(env.globals, env, cls=env.cls)
        for x in self.iter(self.eval(g.iter, env)):
            self.assign(g.target, x, inner)
            if all(self.truth(self.eval_cond(c, inner)) for c in g.ifs):
                self.comp(gens, k + 1, inner, emit)

    def flat(self, env):
        d = {}
        chain = []
        e = env
        while e: chain.append(e); e = e.parent
        for e in reversed(chain): d.update(e.vars)
        return d

    def find_self(self, env):
        e = env
        while e is not None:
            if e.selfobj is not None: return e.selfobj
            e = e.parent
        raise EngineError('super(): no self')
    def find_class(self, env, selfobj):
        for k in type(selfobj).__mro__:
            if k.__name__ == env.cls: return k
        raise EngineError('super(): class not found')


def explore(run, max_paths=None, contracts=None, pre=None):
    """DFS over decision prefixes by re-execution.  run(interp) -> result.
    Returns list of (interp, outcome) with outcome = ('ok', value) | ('exc', exception)."""
    out = []; todo = [[]]
    max_paths = max_paths or Interp.max_paths
    while todo:
        dec = todo.pop()
        I = Interp(dec)
        if contracts: I.contracts.update(contracts)
        try:
            if pre: pre(I)
            r = ('ok', run(I))
        except Infeasible:
            continue
        except EngineError:
            raise
        except (Return, Break, Continue) as e:
            raise EngineError('control-flow exception escaped: %r' % e)
        except RecursionError as e:
            raise EngineError('recursion limit')
        except Exception as e:
            r = ('exc', e)
        out.append((I, r))
        for k in range(len(dec), len(I.taken)):
            c, alts = I.taken[k]
            for a in alts:
                todo.append([t[0] for t in I.taken[:k]] + [a])
        if len(out) + len(todo) > max_paths: raise PathLimit('more than %d paths' % max_paths)
    return out
