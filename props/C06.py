# C06  Salsa20, ChaCha, RC4: specified keystream, length-preserving XOR streams.
from pyvc.oblig import obligation
from pyvc import val
from pyvc.val import land, lor, lnot, mask
from spec import stream as ST
import crysp.salsa20 as salsa20, crysp.chacha as chacha, crysp.rc4 as rc4
from crysp.poly import Poly
from crysp.bits import Bits

P = 'C06'
KINDS = {'salsa': salsa20.Salsa20, 'chacha': chacha.Chacha}
def mkpoly(vals, size=32):
    p = Poly([0] * len(vals), size); p.ival = list(vals); return p
def sympoly(c, name, n, size=32): return mkpoly(c.words(name, n, size), size)

def install_qr(c, kind):
    cls = KINDS[kind]
    def h(I, args, kw):
        self, y = args
        if y.dim != 4 or y.size != 32: return NotImplemented
        return (mkpoly(ST.qr(kind, list(y.ival), True)),)
    c.replace(cls.quarterround, h)
def install_dr(c, kind):
    def h(I, args, kw):
        self, x = args
        if x.dim != 16 or x.size != 32: return NotImplemented
        return (mkpoly(ST._un(ST.DR[kind](ST._pk16(list(x.ival))), 16)),)
    c.replace(salsa20.Salsa20.doubleround, h)
def install_core(c, kind):
    def h(I, args, kw):
        self, X = args[0], args[1]
        dr = kw.get('dround', args[2] if len(args) > 2 else 10)
        if X.dim != 16 or X.size != 32 or not isinstance(dr, int) or not 1 <= dr <= 10: return NotImplemented
        return (mkpoly(ST._un(ST.CORE[(kind, dr)](ST._pk16(list(X.ival))), 16)),)
    c.replace(salsa20.Salsa20.core, h)

@obligation(P, 'quarterround/post', cls='L', cases={'kind': ['salsa', 'chacha']}, funcs=['crysp.salsa20.Salsa20.quarterround', 'crysp.chacha.Chacha.quarterround'])
def _(c):
    kind = c.case('kind'); o = KINDS[kind]()
    y = sympoly(c, 'y', 4); y0 = list(y.ival)
    z = c.call(KINDS[kind].quarterround, o, y)
    c.ensure('qr', land(val.eq(list(z.ival), ST.qr(kind, y0, False)), z.size == 32, z.dim == 4))
    c.ensure('operand', val.eq(list(y.ival), y0))

@obligation(P, 'rounds/post', cls='L', opaque=['salsa_qr', 'chacha_qr'], cases={'kind': ['salsa', 'chacha'], 'f': ['rowround', 'columnround', 'doubleround']},
            funcs=['crysp.salsa20.Salsa20.rowround', 'crysp.salsa20.Salsa20.columnround', 'crysp.salsa20.Salsa20.doubleround', 'crysp.chacha.Chacha.rowround', 'crysp.chacha.Chacha.columnround'])
def _(c):
    kind, f = c.case('kind'), c.case('f'); o = KINDS[kind]()
    install_qr(c, kind)
    x = sympoly(c, 'x', 16); x0 = list(x.ival)
    z = c.call(getattr(KINDS[kind], f), o, x)
    c.ensure(f, land(val.eq(list(z.ival), getattr(ST, f)(kind, x0, True)), z.size == 32, z.dim == 16))

@obligation(P, 'core/post', cls='L', opaque=['salsa_doubleround', 'chacha_doubleround'], cases={'kind': ['salsa', 'chacha'], 'dr': list(range(1, 11))}, funcs=['crysp.salsa20.Salsa20.core'])
def _(c):
    kind, dr = c.case('kind'), c.case('dr'); o = KINDS[kind]()
    install_dr(c, kind)
    x = sympoly(c, 'x', 16); x0 = list(x.ival)
    z = c.call(salsa20.Salsa20.core, o, x, dround=dr)
    c.ensure('core', land(val.eq(list(z.ival), ST.core(kind, x0, dr, True)), z.size == 32, z.dim == 16))
    c.ensure('input-unchanged', val.eq(list(x.ival), x0))

@obligation(P, 'Salsa20.hash/post', cls='L', opaque=ST.NAMES, funcs=['crysp.salsa20.Salsa20.hash'])
def _(c):
    install_core(c, 'salsa')
    m = c.bytes('X', 64)
    out = c.call(salsa20.Salsa20.hash, salsa20.Salsa20(), m)
    x = ST._words(list(m))
    exp = ST._un(ST.CORE[('salsa', 10)](ST._pk16(x)), 16)
    c.ensure('hash', val.eq(out, [b for w in exp for b in val.le_bytes(w, 4)]))

@obligation(P, '__init__/state-layout', cls='L', cases={'kind': ['salsa', 'chacha'], 'klen': [16, 32], 'rounds': [2, 8, 12, 20]}, funcs=['crysp.salsa20.Salsa20.__init__', 'crysp.chacha.Chacha.__init__'])
def _(c):
    kind, klen = c.case('kind'), c.case('klen')
    key = c.bytes('K', klen)
    K = Bits(0, 8 * klen); K.ival = val.from_le(list(key))
    o = c.call(KINDS[kind], K, c.case('rounds'))
    exp = (ST.salsa_state if kind == 'salsa' else ST.chacha_state)(list(key), [0] * 8, 0)
    free = (6, 7, 8, 9) if kind == 'salsa' else (12, 13, 14, 15)
    c.ensure('layout', land(*[val.eq(o.p.ival[i], exp[i]) for i in range(16) if i not in free]))
    c.ensure('shape', land(o.p.dim == 16, o.p.size == 32, o.dround == c.case('rounds') // 2))

@obligation(P, '__init__/rejects', cls='B', bound='odd / non-positive round counts in -2..21, key sizes 0..320 bits step 32', funcs=['crysp.salsa20.Salsa20.__init__'], cases={'kind': ['salsa', 'chacha']})
def _(c):
    cls = KINDS[c.case('kind')]
    for r in (-2, -1, 0, 1, 3, 7, 19, 21):
        c.raises('rounds=%d' % r, Exception, cls, Bits(0, 128), r)
    for n in (0, 32, 64, 96, 160, 192, 224, 288, 320):
        c.raises('keybits=%d' % n, Exception, cls, Bits(0, n), 8)

@obligation(P, 'keystream/step', cls='I', opaque=ST.NAMES, cases={'kind': ['salsa', 'chacha'], 'klen': [16, 32], 'dr': [1, 4, 10]}, funcs=['crysp.salsa20.Salsa20.keystream', 'crysp.chacha.Chacha.keystream'],
            note='inductive step of the keystream loop for an ARBITRARY block index i in [0, 2^64): counter words incl. the carry into the high word; invariant: key/constant/nonce words of p unchanged')
def _(c):
    kind, klen, dr = c.case('kind'), c.case('klen'), c.case('dr')
    install_core(c, kind)
    key = c.bytes('K', klen); nonce = c.bytes('N', 8)
    K = Bits(0, 8 * klen); K.ival = val.from_le(list(key))
    o = c.call(KINDS[kind], K, 2 * dr)
    v = Bits(0, 64); v.ival = val.from_le(list(nonce))
    # loop entry: the statements before the loop, evaluated by starting the generator and taking the first block
    g = c.call(KINDS[kind].keystream, o, v)
    first = c.call(next, g)
    exp0 = ST.block(kind, list(key), list(nonce), 0, dr, True)
    c.ensure('block0', val.eq([b for w in first.ival for b in val.le_bytes(w, 4)], exp0))
    # arbitrary iteration: havoc the counter, keep the loop invariant (p holds key, constants, nonce)
    i = c.int('i', 0, (1 << 64) - 1)
    ys, loc = c.loop_body(KINDS[kind].keystream, 0, {'self': o, 'v': v, 'i': i, 'maxlen': 1 << 64})
    c.ensure('one-yield', len(ys) == 1)
    exp = ST.block(kind, list(key), list(nonce), i, dr, True)
    c.ensure('block_i', val.eq([b for w in ys[0].ival for b in val.le_bytes(w, 4)], exp))
    c.ensure('i+1', val.eq(loc['i'], i + 1))
    st = (ST.salsa_state if kind == 'salsa' else ST.chacha_state)(list(key), list(nonce), i)
    c.ensure('invariant', val.eq(list(o.p.ival), st))

def _enc_cases(tier):
    ns = [0, 1, 63, 64, 65, 128, 130] if tier == 'quick' else list(range(0, 70)) + [127, 128, 129, 191, 192, 193]
    # the round count only selects the (opaque) core: every count for the boundary lengths, three counts for the others
    return [{'kind': k, 'n': n, 'dr': dr} for k in ('salsa', 'chacha') for n in ns
            for dr in ((4, 10) if tier == 'quick' else range(1, 11) if n in (0, 1, 63, 64, 65, 128, 129, 192, 193) else (4, 6, 10))]
@obligation(P, 'enc/bounded', cls='B', opaque=ST.NAMES, bound='message length <= 130 bytes quick (<= 193 thorough); contents, key and nonce symbolic', cases=_enc_cases,
            funcs=['crysp.salsa20.Salsa20.enc', 'crysp.salsa20.Salsa20.dec', 'crysp.salsa20.Salsa20.keystream', 'crysp.chacha.Chacha.keystream'])
def _(c):
    kind, n, dr = c.case('kind'), c.case('n'), c.case('dr')
    install_core(c, kind)
    key = c.bytes('K', 32); nonce = c.bytes('N', 8); m = c.bytes('M', n)
    K = Bits(0, 256); K.ival = val.from_le(list(key))
    o = c.call(KINDS[kind], K, 2 * dr)
    v = Bits(0, 64); v.ival = val.from_le(list(nonce))
    out = c.call(KINDS[kind].enc, o, v, m)
    exp = ST.stream_xor(kind, list(key), list(nonce), list(m), dr, True)
    c.ensure('ciphertext', val.eq(out, exp)); c.ensure('length', len(out) == n)
    back = c.call(KINDS[kind].dec, o, v, out)
    c.ensure('dec(enc)', val.eq(back, m))
    if n > 3:
        pre = c.call(KINDS[kind].enc, o, v, m[:n - 3])
        c.ensure('prefix', val.eq(pre, exp[:n - 3]))

# ---------------------------------------------------------------- RC4
def symS(c):
    return mkpoly(c.words('S', 256, 8), 8)

@obligation(P, 'RC4.keystream/step', cls='I', funcs=['crysp.rc4.RC4.keystream'], timeout=300,
            note='inductive step of the PRGA loop on an arbitrary state (S any 256 bytes, i, j): one output byte and the swap')
def _(c):
    S = symS(c); S0 = list(S.ival)
    i = c.int('i', 0, 255); j = c.int('j', 0, 255)
    r = rc4.RC4.__new__(rc4.RC4); r.S = S; r.i = i; r.j = j
    ks = []
    ys, loc = c.loop_body(rc4.RC4.keystream, 0, {'self': r, 'S': S, 'ks': ks, 'i': i, 'j': j, 'l': 1})
    S2, i2, j2, out = ST.rc4_step(S0, i, j)
    c.ensure('output', land(len(ks) == 1, val.eq(ks[0], out)))
    c.ensure('i,j', land(val.eq(loc['i'], i2), val.eq(loc['j'], j2)))
    c.ensure('swap', val.eq(list(S.ival), S2))

@obligation(P, 'RC4.ksa/bounded', cls='B', bound='key lengths {1,2,3,5,16,255,256}; key bytes symbolic', cases={'n': [1, 2, 3, 5, 16, 255, 256]}, funcs=['crysp.rc4.RC4.__init__', 'crysp.rc4.RC4.ksa'], timeout=300)
def _(c):
    key = c.bytes('K', c.case('n'))
    r = c.call(rc4.RC4, key)
    c.ensure('S', val.eq(list(r.S.ival), ST.rc4_ksa(list(key))))
    c.ensure('i,j', land(r.i == 0, r.j == 0, r.S.dim == 256))

@obligation(P, 'RC4.__init__/rejects', cls='B', bound='key lengths 0 and 257..260', cases={'n': [0, 257, 258, 260]}, funcs=['crysp.rc4.RC4.__init__'])
def _(c):
    c.raises('key-size', Exception, rc4.RC4, c.bytes('K', c.case('n')))

@obligation(P, 'RC4.enc/continuity', cls='B', bound='pieces of 0..3 bytes, two or three pieces; state (S,i,j) arbitrary', cases={'split': ['0', '1', '2,1', '1,0,2', '3', '0,0', '2,2']},
            funcs=['crysp.rc4.RC4.enc', 'crysp.rc4.RC4.dec', 'crysp.rc4.RC4.keystream'], timeout=300)
def _(c):
    lens = [int(x) for x in c.case('split').split(',')]
    S = symS(c); S0 = list(S.ival); i0 = c.int('i', 0, 255); j0 = c.int('j', 0, 255)
    r = rc4.RC4.__new__(rc4.RC4); r.S = S; r.i = i0; r.j = j0
    out = []; msgs = []
    for k, n in enumerate(lens):
        m = c.bytes('m%d' % k, n); msgs += list(m)
        o = c.call(rc4.RC4.enc, r, m)
        c.ensure('length%d' % k, len(o) == n)
        out += list(o)
    St, i, j = S0, i0, j0; exp = []
    for b in msgs:
        St, i, j, ks = ST.rc4_step(St, i, j); exp.append(b ^ ks)
    c.ensure('stream', val.eq(out, exp))
    c.ensure('state', land(val.eq(list(r.S.ival), St), val.eq(r.i, i), val.eq(r.j, j)))

@obligation(P, 'canary/salsa-qr', cls='L', canary=True, funcs=['crysp.salsa20.Salsa20.quarterround'])
def _(c):
    y = sympoly(c, 'y', 4); y0 = list(y.ival)
    z = c.call(salsa20.Salsa20.quarterround, salsa20.Salsa20(), y)
    c.ensure('canary', val.eq(list(z.ival), ST.chacha_qr(y0)))
