# Keccak-f[b], the sponge construction, SHA-3 and SHAKE (FIPS 202) on lists of lanes / lists of bits.
# Round constants come from the LFSR of FIPS 202 3.2.5, rotation offsets from the (t+1)(t+2)/2 walk of 3.2.2 --
# no table is copied.  Validated against hashlib for b=1600 in spec/validate.py.
from pyvc.val import mask, rol, Opaque, from_bits, bits_of

def _rc_bit(t):
    if t % 255 == 0: return 1
    R = [1, 0, 0, 0, 0, 0, 0, 0]
    for _ in range(1, t % 255 + 1):
        R = [0] + R
        R[0] ^= R[8]; R[4] ^= R[8]; R[5] ^= R[8]; R[6] ^= R[8]
        R = R[:8]
    return R[0]
def round_constant(ir, w):
    l = w.bit_length() - 1
    rc = 0
    for j in range(l + 1):
        rc |= _rc_bit(j + 7 * ir) << ((1 << j) - 1)
    return rc
def rho_offsets():
    off = {(0, 0): 0}
    x, y = 1, 0
    for t in range(24):
        off[(x, y)] = (t + 1) * (t + 2) // 2
        x, y = y, (2 * x + 3 * y) % 5
    return off
RHO = rho_offsets()

def round_(A, rc, w):
    """A: list of 25 lanes (index x+5y), rc: w-bit round constant (int-like)"""
    M = mask(w)
    C = [A[x] ^ A[x + 5] ^ A[x + 10] ^ A[x + 15] ^ A[x + 20] for x in range(5)]
    D = [C[(x - 1) % 5] ^ rol(C[(x + 1) % 5], 1 % w, w) for x in range(5)]
    A = [A[i] ^ D[i % 5] for i in range(25)]
    B = [0] * 25
    for x in range(5):
        for y in range(5):
            B[y + 5 * ((2 * x + 3 * y) % 5)] = rol(A[x + 5 * y], RHO[(x, y)] % w, w)
    A = [B[x + 5 * y] ^ ((B[(x + 1) % 5 + 5 * y] ^ M) & B[(x + 2) % 5 + 5 * y]) for y in range(5) for x in range(5)]
    A[0] = A[0] ^ rc
    return A

def nrounds(w): return 12 + 2 * (w.bit_length() - 1)
def _pk(A, w):
    r = 0
    for i, a in enumerate(A): r = r | (a << (w * i))
    return r
def _un(x, w): return [(x >> (w * i)) & mask(w) for i in range(25)]
WIDTHS = [1, 2, 4, 8, 16, 32, 64]
ROUND = {w: Opaque('keccak_round%d' % w, (lambda s, rc, w=w: _pk(round_(_un(s, w), rc, w), w)), [25 * w, w], 25 * w) for w in WIDTHS}
F = {w: Opaque('keccak_f%d' % (25 * w), (lambda s, w=w: _pk(f(_un(s, w), w), w)), [25 * w], 25 * w) for w in WIDTHS}
NAMES_ROUND = ['keccak_round%d' % w for w in WIDTHS]
NAMES_F = ['keccak_f%d' % (25 * w) for w in WIDTHS]

def f(A, w, opaque_round=False):
    for ir in range(nrounds(w)):
        rc = round_constant(ir, w)
        A = _un(ROUND[w](_pk(A, w), rc), w) if opaque_round else round_(A, rc, w)
    return A

def sponge_bits(b, r, bits, d, opaque_f=False):
    """message bit list -> d output bits (Keccak[b-r] with pad10*1)"""
    w = b // 25
    P = list(bits) + [1] + [0] * ((-len(bits) - 2) % r) + [1]
    S = [0] * 25
    def perm(S): return _un(F[w](_pk(S, w)), w) if opaque_f else f(S, w)
    for i in range(0, len(P), r):
        blk = P[i:i + r] + [0] * (b - r)
        S = perm([S[l] ^ from_bits(blk[w * l:w * l + w]) for l in range(25)])
    out = []
    while True:
        sb = [bt for l in range(25) for bt in bits_of(S[l], w)]
        out += sb[:r]
        if len(out) >= d: return out[:d]
        S = perm(S)

def msg_bits(M, L, nist):
    """bits of the first L bits of byte string M: bytes LSB-first; in the NIST convention the last partial byte holds its
    bits at the most significant side"""
    out = []
    for i in range(L):
        by = M[i // 8]
        if nist and i // 8 == L // 8: out.append((by >> (8 - L % 8 + i % 8)) & 1)
        else: out.append((by >> (i % 8)) & 1)
    return out

def bits_to_bytes(bits):
    out = []
    for i in range(0, len(bits), 8):
        out.append(from_bits(bits[i:i + 8]))
    return out

def sha3(n, M): return bits_to_bytes(sponge_bits(1600, 1600 - 2 * n, msg_bits(M, 8 * len(M), False) + [0, 1], n))
def shake(n, M, d): return bits_to_bytes(sponge_bits(1600, 1600 - 2 * n, msg_bits(M, 8 * len(M), False) + [1, 1, 1, 1], d))
