# C18  The white-box DES tables compute exactly DES under the embedded key.
from pyvc.oblig import obligation
from pyvc import val
from pyvc.val import land, lor, lnot, mask
from spec import des as D
import crysp.wb as wb, crysp.des as des
from crysp.bits import Bits
import random

P = 'C18'

@obligation(P, 'table_rKT/post', cls='L', cases={'r': list(range(16))}, funcs=['crysp.wb.table_rKS', 'crysp.wb.table_rKT', 'crysp.des.subkey', 'crysp.des.PC1', 'crysp.des.S'], timeout=300,
            note='for EVERY 64-bit key (symbolic): every entry of the 8 keyed T-boxes of round r is the FIPS 46-3 S-box of (6 input bits xor round-key bits) followed by the 4 by-pass bits; the 4 remaining tables are the identity')
def _(c):
    r = c.case('r')
    K = c.bits('K', 64)
    rks, rkt = c.call(wb.table_rKT, r, K)
    rk = D.round_key(D.pc1(val.bits_of(K.ival, 64)), r)
    c.ensure('shape', land(len(rks) == 8, len(rkt) == 12, all(len(t) == 64 for t in rks), all(len(t) == 256 for t in rkt)))
    for n in range(8):
        for v in range(64):
            six = [((v >> t) & 1) ^ rk[6 * n + t] for t in range(6)]
            c.ensure('S[%d][%d]' % (n, v), val.eq(rks[n][v], val.from_bits(D.sbox_bits(n, six))))
        for v in (0, 1, 0x3f, 0x40, 0x80, 0xa5, 0xff):
            six = [((v >> t) & 1) ^ rk[6 * n + t] for t in range(6)]
            exp = val.from_bits(D.sbox_bits(n, six)) | ((v & 1) << 4) | (((v >> 5) & 1) << 5) | (((v >> 6) & 1) << 6) | (((v >> 7) & 1) << 7)
            c.ensure('T[%d][%d]' % (n, v), val.eq(rkt[n][v], exp))
    for n in range(8, 12):
        c.ensure('T[%d] identity' % n, list(rkt[n]) == list(range(256)))

@obligation(P, 'tables/total-and-key-independent', cls='E', domain={}, funcs=['crysp.wb.table_M1', 'crysp.wb.table_M2', 'crysp.wb.table_M3', 'crysp.wb.table_rKT', 'crysp.wb.getrbits_T_in', 'crysp.wb.SRLRformat', 'crysp.wb.ERLRformat'],
            note='every lookup table is a total map on 0..255 with byte values; the key-independent tables take no key and are identical on every generation')
def _(c):
    for K in (bytes(8), bytes([0xff] * 8), bytes(range(1, 9))):
        for r in range(16):
            rks, rkt = wb.table_rKT(r, Bits(K, 64))
            c.ensure('byte tables', all(len(t) == 256 and all(isinstance(x, int) and 0 <= x <= 255 for x in t) for t in rkt))
    m1a, m1b = wb.table_M1(), wb.table_M1()
    m2a, m2b = wb.table_M2(), wb.table_M2()
    m3a, m3b = wb.table_M3(), wb.table_M3()
    c.ensure('M1', m1a == m1b and len(m1a) == 96 and all(0 <= x < 64 for x in m1a))
    c.ensure('M2', m2a[0] == m2b[0] and len(m2a[0]) == 96 and all(0 <= x < (1 << 96) for x in m2a[0]))
    c.ensure('M3', m3a == m3b and len(m3a) == 64 and all(0 <= x < 96 for x in m3a))
    import inspect
    c.ensure('no key parameter', all(len(inspect.signature(f).parameters) == 0 for f in (wb.table_M1, wb.table_M2, wb.table_M3)))

KEYS = ['0101010101010101', 'fefefefefefefefe', 'e0e0e0e0f1f1f1f1', '1f1f1f1f0e0e0e0e', '01fe01fe01fe01fe', 'fe01fe01fe01fe01', '0123456789abcdef', '0022446688aaccee', '8001010101010101', 'ffffffffffffffff', '0000000000000000']
def _keys(tier):
    r = random.Random(77)
    ks = list(KEYS) + ['%016x' % r.getrandbits(64) for _ in range(3 if tier == 'quick' else 20)]
    return [{'key': k} for k in ks]

@obligation(P, 'WhiteDES.enc/programs', cls='B', native=True, cases=_keys, bound='14 keys (quick; weak, semi-weak, parity variants, random) x 64 single-bit blocks, zero, all-ones and 8 random blocks',
            funcs=['crysp.wb.WhiteDES.enc', 'crysp.wb.WhiteDES.__FX', 'crysp.wb.table_M1', 'crysp.wb.table_M2', 'crysp.wb.table_M3', 'crysp.wb.table_rKT'])
def _(c):
    key = bytes.fromhex(c.case('key'))
    KT = [wb.table_rKT(r, Bits(key, 64))[1] for r in range(16)]
    w = wb.WhiteDES(KT, wb.table_M1(), wb.table_M2()[0], wb.table_M3())
    r = random.Random(int(c.case('key'), 16))
    blocks = [(1 << i).to_bytes(8, 'big') for i in range(64)] + [bytes(8), b'\xff' * 8] + [bytes(r.randrange(256) for _ in range(8)) for _ in range(8)]
    d = des.DES(key)
    for b in blocks:
        out = c.call(wb.WhiteDES.enc, w, b)
        c.ensure('block %s' % b.hex(), out == bytes(D.encrypt(key, b)) and out == d.enc(b))
        c.ensure('repeat %s' % b.hex(), w.enc(b) == out)        # the same object, the same block again
    c.raises('wrong block size', Exception, wb.WhiteDES.enc, w, bytes(7))

def spec_rks(key, r):
    rk = D.round_key(D.pc1(D.bytes_to_bits(list(key))), r)
    return [[val.from_bits(D.sbox_bits(n, [((v >> t) & 1) ^ rk[6 * n + t] for t in range(6)])) for v in range(64)] for n in range(8)]

@obligation(P, 'table_rKT/sequence', cls='B', native=True, bound='2 base keys x 12 related keys (each key byte bit class flipped, parity-only differences) generated one after the other in one process, rounds 0, 7, 15',
            cases={'base': ['0000000000000000', '0123456789abcdef']}, funcs=['crysp.wb.table_rKS', 'crysp.wb.table_rKT'],
            note='the tables of a key do not depend on tables generated earlier for other keys (incl. keys that differ only in parity bits or in one bit class)')
def _(c):
    base = int(c.case('base'), 16)
    flips = [0, 0x8080808080808080, 0x0101010101010101, 0x8000000000000000, 0x0000000000000080, 0x4040404040404040, 0x0202020202020202, 0xfefefefefefefefe, 0x7f7f7f7f7f7f7f7f, 0x1, 0x100, 0x10]
    for f in flips:
        key = (base ^ f).to_bytes(8, 'big')
        for r in (0, 7, 15):
            rks, rkt = wb.table_rKT(r, Bits(key, 64))
            c.ensure('key %s round %d' % (key.hex(), r), [list(t) for t in rks] == spec_rks(key, r))

@obligation(P, 'canary/wb', cls='E', canary=True, domain={}, funcs=['crysp.wb.table_M3'])
def _(c):
    c.ensure('canary', wb.table_M3() == list(range(64)))
