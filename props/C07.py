# C07  Bits: construction and conversions are faithful under every bit order.
# Model from the property: a vector is (value, size) with bit i = (value >> i) & 1; byte strings are read by the
# documented conventions.  Values/bytes symbolic over their whole range; sizes and byte counts enumerated (class B).
from pyvc.oblig import obligation
from pyvc import val
from pyvc.val import land, lor, lnot, mask
from crysp.bits import Bits, pack, unpack, reverse_byte

P = 'C07'
def sizes(tier): return list(range(0, 18)) + [31, 32, 33, 63, 64, 65, 127, 128, 129] if tier == 'quick' else list(range(0, 130)) + [255, 256, 257, 511, 512, 1024, 2048]
def wf(c, lab, b, n):
    c.ensure(lab + '/size', land(b.size == n, c.len(b) == n if True else True))
    c.ensure(lab + '/mask', b.mask == mask(n))
    c.ensure(lab + '/payload', land(b.ival >= 0, b.ival <= mask(n)))

def model_bytes(s, bitorder):
    """integer value of a byte string under the documented convention (little-endian sequence of big-endian groups)"""
    l = len(s)
    f = (lambda x: x)
    if bitorder < 0: f = val.rev8; bitorder = -bitorder
    elif bitorder == 0: bitorder = max(l, 1) if l else 1
    v = 0
    groups = [s[i:i + bitorder] for i in range(0, l, bitorder)]
    for g in reversed(groups):
        x = 0
        for b in g: x = (x << 8) | f(b)
        v = (v << (8 * bitorder)) | x
    return v

@obligation(P, 'crysp.bits.reverse_byte/post', cls='E', funcs=['crysp.bits.reverse_byte'], domain={}, note='all 256 bytes')
def _(c):
    c.ensure('rev8', all(c.call(reverse_byte, b) == val.rev8(b) for b in range(256)))

@obligation(P, 'crysp.bits.Bits.__init__/int-list-bits', cls='B', bound='sizes in the listed set; values complete', cases=lambda tier: [{'n': n} for n in sizes(tier)],
            funcs=['crysp.bits.Bits.__init__', 'crysp.bits.Bits.size', 'crysp.bits.Bits.bit', 'crysp.bits.Bits.int', 'crysp.bits.Bits.bitlist', 'crysp.bits.Bits.__iter__', 'crysp.bits.Bits.__len__', 'crysp.bits.Bits.__int__', 'crysp.bits.Bits.__index__'])
def _(c):
    n = c.case('n')
    x = c.word('x', n) if n else 0
    b = c.call(Bits, x, n)
    wf(c, 'int', b, n); c.ensure('int/value', val.eq(b.ival, x))
    y = c.word('y', n + 3)                                # a value wider than the size: higher bits cleared
    b2 = c.call(Bits, y, n)
    wf(c, 'int-trunc', b2, n); c.ensure('int-trunc/value', val.eq(b2.ival, y & mask(n)))
    cp = c.call(Bits, b)
    wf(c, 'copy', cp, n); c.ensure('copy/value', val.eq(cp.ival, x)); c.ensure('copy/distinct', cp is not b)
    if n <= 65:
        bits = val.bits_of(x, n)
        bl = c.call(Bits, list(bits))
        wf(c, 'list', bl, n); c.ensure('list/value', val.eq(bl.ival, x))
        out = c.call(Bits.bitlist, b)
        c.ensure('bitlist', val.eq(list(out), bits))
        c.ensure('bitlist(-1)', val.eq(list(c.call(Bits.bitlist, b, -1)), bits[::-1]))
        c.ensure('iter', val.eq(c.list(b), bits))
        rt = c.call(Bits, list(out))
        c.ensure('roundtrip/bitlist', land(val.eq(rt.ival, x), rt.size == n))
        for i in range(-n - 1, n + 1):
            o = c.outcome(Bits.bit, b, i)
            if -n <= i < n: c.ensure('bit(%d)' % i, o[0] == 'ok' and val.eq(o[1], bits[i]))
            else: c.ensure('bit(%d)/refused' % i, o[0] == 'exc' and isinstance(o[1], Exception))
    c.ensure('int()', val.eq(c.call(Bits.int, b), x))
    c.ensure('__int__', val.eq(c.call(Bits.__int__, b), x)); c.ensure('__index__', val.eq(c.call(Bits.__index__, b), x))
    if n:
        c.ensure('int(-1)', val.eq(c.call(Bits.int, b, -1), x - ((x >> (n - 1)) & 1) * (1 << n)))

def _orders(l):
    out = [-1, 1, 0]
    for k in range(2, l + 1):
        if l % k == 0: out += [k, -k]
    return out

@obligation(P, 'crysp.bits.Bits.load/post', cls='B', bound='byte strings of 0..8 bytes (quick; 0..16,24,32,40 thorough), every admissible bitorder, optional size; contents complete',
            cases=lambda tier: [{'l': l} for l in (range(0, 9) if tier == 'quick' else list(range(0, 17)) + [24, 32, 40])], funcs=['crysp.bits.Bits.load', 'crysp.bits.Bits.__init__', 'crysp.bits.Bits.__bytes__', 'crysp.bits.Bits.bytes'])
def _(c):
    l = c.case('l')
    s = c.bytes('s', l)
    for bo in _orders(l):
        b = c.call(Bits, s, None, bo) if l else c.call(Bits, s, None, bo if bo else 0)
        lab = 'bitorder=%d' % bo
        wf(c, lab, b, 8 * l)
        c.ensure(lab + '/value', val.eq(b.ival, model_bytes(list(s), bo)))
        for n in sorted({0, 1, 5, 8 * l - 3, 8 * l, 8 * l + 5} & set(range(0, 8 * l + 6))):
            bs = c.call(Bits, s, n, bo)
            wf(c, lab + '/size=%d' % n, bs, n)
            c.ensure(lab + '/size=%d/value' % n, val.eq(bs.ival, model_bytes(list(s), bo) & mask(n)))
    for bad in (3, 5, 7):
        if l and l % bad:
            c.raises('bitorder=%d rejected' % bad, Exception, Bits, s, None, bad)
    # the bit-stream convention spelled out: bit 0 is the most significant bit of the first byte
    b = c.call(Bits, s)
    c.ensure('bitstream', val.eq(b.ival, val.from_bits([(s[i // 8] >> (7 - i % 8)) & 1 for i in range(8 * l)])))
    out = c.call(Bits.bytes, b)
    c.ensure('bytes()', val.eq(out, s))
    c.ensure('__bytes__', val.eq(c.call(Bits.__bytes__, b), s))

@obligation(P, 'crysp.bits.Bits.bytes/partial', cls='B', bound='sizes 0..40 and word sizes; values complete', cases=lambda tier: [{'n': n} for n in list(range(0, 41)) + [63, 64, 65, 127, 128]],
            funcs=['crysp.bits.Bits.__bytes__', 'crysp.bits.Bits.bytes', 'crysp.bits.pack'])
def _(c):
    n = c.case('n')
    b = c.bits('b', n); x = b.ival
    out = c.call(Bits.bytes, b)
    nb = -(-n // 8)
    bits = val.bits_of(x, n) + [0] * (8 * nb - n)
    c.ensure('bytes', val.eq(out, [val.from_bits(bits[8 * i:8 * i + 8][::-1]) for i in range(nb)]))
    rt = c.call(Bits, out, n)
    c.ensure('roundtrip/bytes', land(val.eq(rt.ival, x), rt.size == n))
    p = c.call(pack, b)
    c.ensure('pack<', val.eq(p, val.le_bytes(x, nb)))
    pb = c.call(pack, b, '>L')
    c.ensure('pack>', val.eq(pb, val.le_bytes(x, nb)[::-1]))
    c.raises('pack-bad-format', Exception, pack, b, '<Q')
    c.ensure('operand', val.eq(b.ival, x))

@obligation(P, 'crysp.bits.unpack/post', cls='B', bound='byte counts 1..40 (every Q/L/H/B decomposition); contents complete', cases={'l': list(range(1, 41))}, funcs=['crysp.bits.unpack', 'crysp.bits.pack'])
def _(c):
    l = c.case('l')
    s = c.bytes('s', l)
    v, sz = c.call(unpack, s)
    c.ensure('little', land(val.eq(v, val.from_le(list(s))), sz == 8 * l))
    v, sz = c.call(unpack, s, True)
    c.ensure('big', land(val.eq(v, val.from_be(list(s))), sz == 8 * l))
    b = c.bits('b', 8 * l)
    for fmt, be in (('<L', False), ('>L', True)):
        r = c.call(Bits, *c.call(unpack, c.call(pack, b, fmt), be))
        c.ensure('roundtrip/%s' % fmt, land(val.eq(r.ival, b.ival), r.size == 8 * l))

def bitstr(x, n): return ''.join('1' if (x >> i) & 1 else '0' for i in range(n))
@obligation(P, 'crysp.bits.Bits.str-hex-dots/exhaustive', cls='E', cases={'n': list(range(0, 11))}, domain=lambda case: {'x': range(1 << case['n'])}, funcs=['crysp.bits.Bits.__str__', 'crysp.bits.Bits.todots', 'crysp.bits.Bits.hex'],
            note='every value of every size 0..10')
def _(c):
    n = c.case('n'); x = c.int('x', 0, mask(n)); b = Bits(x, n)
    import codecs
    s = c.call(str, b)
    c.ensure('str', s == bitstr(x, n))
    c.ensure('todots', c.call(Bits.todots, b) == '|' + bitstr(x, n).replace('0', ' ').replace('1', '.') + '|')
    c.ensure('hex', c.call(Bits.hex, b) == codecs.encode(b.bytes(), 'hex'))
    if n:
        rt = Bits([int(ch) for ch in s])
        c.ensure('roundtrip/str', rt.ival == x and rt.size == n)

@obligation(P, 'crysp.bits.Bits.str/sampled', cls='B', bound='sizes 11..2049 at word boundaries, boundary values 0, 1, 2^k-1, 2^k, 2^n-1 and seeded random values', cases={'n': [11, 12, 15, 16, 17, 31, 32, 33, 63, 64, 65, 127, 128, 129, 255, 256, 257, 1023, 1024, 2047, 2048, 2049]},
            funcs=['crysp.bits.Bits.__str__', 'crysp.bits.Bits.todots'])
def _(c):
    import random
    n = c.case('n'); r = random.Random(n)
    for x in [0, 1, mask(n), 1 << (n - 1), mask(n - 1), 1 << (n // 2), mask(n // 2)] + [r.getrandbits(n) for _ in range(20)]:
        b = Bits(x, n)
        c.ensure('str(%d bits)' % n, c.call(str, b) == bitstr(x, n))

@obligation(P, 'canary/load-order', cls='L', canary=True, funcs=['crysp.bits.Bits.load'])
def _(c):
    s = c.bytes('s', 2)
    b = c.call(Bits, s, None, 1)
    c.ensure('canary', val.eq(b.ival, val.from_be(list(s))))
